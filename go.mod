module verif

go 1.23
