#!/usr/bin/env python3
"""Regenerates /verif/MANIFEST.json from the table below and validates it."""
import json, os, sys
VERIF = os.path.dirname(os.path.dirname(os.path.abspath(__file__)))

CHECKS = {
 "C01": dict(category="model_checking", technique="explicit-state search over operation sequences on the real store (memfs), reference-map oracle",
   text="Bounded-exhaustive explicit-state model checking of the implementation itself: every history of mutating commands up to depth 4 (quick) / 5 (thorough) over a collision-forcing alphabet (2 keys in one leaf; small, one-block, two-block-compressible, incompressible, numeric, same-value, explicit-revision larger/stale, vhash-colliding values; delete; incr; flush; background work) under 3 configurations (1/16/256 buckets, heights 2-3, check_vhash on/off, data files of 2-3 records, hint splits of 2 items); in every reached state every read path (get, multi-get, ?key, ??key, memory-only) through the memcached text protocol is compared with a plain reference map. This is the right level because the property is a universally quantified equivalence with a map; the bound covers every ordering of overwrite/delete/incr/rotation/flush of two keys.",
   note="Trusts: Go toolchain, the source rewriter (sync/os/time/go redirected to shims), memfs as a model of POSIX files, the 60-line reference map. Depth and alphabet are bounds, not proofs; values come from ~10 shape classes; incr's version rule is pinned from the code.", design="4/C01"),
 "C02": dict(category="model_checking", technique="explicit-state search over histories + exhaustive enumeration of index-file subsets at every clean shutdown (real store on memfs)",
   text="Part (a): every history up to depth 4 (quick: 3-4) over mutators, flush, background work, hint dump, hint merge and restarts (keeping all / dropping *.hash / dropping everything); after every history the store is shut down cleanly, the process exits, and for EVERY subset of the index files present (tree dump, per-split hints, merged hint) a fresh process is opened on a copy of the directory and every key is read through every read path and compared with the reference map of acknowledged operations. Part (b) (shutdown racing the post-rotation flush / periodic flusher / hint dumper) is explored by the controlled scheduler.",
   note="Trusts rewriter, memfs, reference map. Versions of deleted keys are not compared after a restart and versions after a tree-only bump may be the tree's or the record's, exactly as the property states. Depth/alphabet are bounds.", design="4/C02"),
 "C03": dict(category="model_checking", technique="explicit-state search: layouts x every range the real range check resolves x merge x follow-ups, reference-map oracle (GC = identity)",
   text="Every layout history (2 keys, 1- and 2-block values, deletes, data files of 2 records, optional tree-rebuilding restart) up to L letters, then every distinct range the real range check resolves from any (begin,end) in [-1..head+1]^2 with merge off/on, run to completion through HStore.GC; then restarts with index subsets dropped, a further write plus a second GC, or a second GC directly. The read battery is compared with the reference map after every step. Three destination kinds are reached (in-place rewrite, fresh file in a gap, append to an earlier short file then overflow).",
   note="Quiescent passes only (overlap with traffic is C05). Bounds: L<=3-5 letters, 2 keys, two GC configurations. Trusts rewriter, memfs, reference map.", design="4/C03"),
 "C18": dict(category="model_checking", technique="same exploration as C03 with an independent record scanner as oracle",
   text="Same layouts, ranges and follow-ups as C03; after every completed pass an independent scanner (own decoder of the beansdb record layout, Go hash/crc32) reads every data file of the resolved range: each record must be the reference map's current record of its key, at most once; files outside the range are byte-identical except one earlier file that may only grow; an identical second pass releases nothing and changes no file.",
   note="Quiescent, non-colliding keys. One genuine deviation is recorded as known finding F18a (superseded tombstones kept after a tree rebuild when the range does not start at file 0).", design="4/C18"),
 "C13": dict(category="model_checking", technique="explicit-state search with reads as transitions over keys forced onto one key hash, per-key reference map",
   text="Every history up to depth 5 (thorough 6) over set/delete/get of 2-3 keys forced onto one 64-bit hash through the getKeyHash seam (plus the real colliding pair of the Python suite under the real hash), a set of an ordinary key, flush, restarts with/without the tree dump (collision.yaml kept) and every GC range the range check resolves (merge off/on); gets are transitions because they populate the collision table. After every history every key is read and compared with the per-key reference map. The collision handling of the pinned tree violates the property in three ways that are recorded as known findings (F13a-c); one further defect (stale read after restart, hintMgr.maxChunkID not restored) was repaired by a fix: commit.",
   note="Versions of colliding keys are not compared. Known findings F13a-c are matched by the shape of the minimised history (delete of an unwritten sibling; delete + tree rebuild; GC with merge=false), anything else is reported.", design="4/C13"),
 "C08": dict(category="model_checking", technique="explicit-state search, differential against a canonical store and independent recomputation of counts/items",
   text="Every history up to depth 3-5 over set, explicit-revision set, same-value set, delete, restart with/without tree dump and every accepted GC range, on keys in one leaf / sibling leaf / other bucket, on filler populations straddling the list-keys threshold (seam set to 4; 256 default) and the C-search threshold (100); in every state the listing of every prefix of length 0..16 (via 'get @prefix') is recomputed independently (kind, counts, item sets, tombstone lines) from the content the store reports and compared with a canonical store built by inserting the same content once in sorted order (history independence, node lines exact). Plus all eight depth+height classes of the truncated leaf key hash directly on the leaf code.",
   note="Node-hash formulas are not pinned (only history independence, counts, items). depth+height <= 5 for whole-tree exploration (memory), all 8 classes at leaf level.", design="4/C08"),
 "C06": dict(category="fault_enumeration", technique="exhaustive crash-point enumeration: every prefix of the file-system mutation log + torn writes, recovered in a fresh process",
   text="Every history up to depth 5 (thorough 6) over writes, deletes, forced flush, background flush after rotation, hint dump and Close, on a store with 2-block data files, 2-item hint splits and a 256-byte bufio; for each history every prefix of the memfs mutation log and torn variants of every write (each 256-byte boundary, unaligned cuts, every byte of the small in-place files) is materialised; each distinct crash state is recovered in a fresh process and every key read. The verdict is computed on the crash state itself with an independent record decoder: serve the last complete record of the key or a later write of it, or refuse to start only when a data file has a torn tail.",
   note="SIGKILL model (completed calls persist, no reordering). An explicit error for a key with no durable live record is tolerated. Two genuine defects found here were repaired (fix: commits 037ef1f, aab28cb).", design="4/C06"),
 "C07": dict(category="fault_enumeration", technique="exhaustive crash-point enumeration inside GC passes over all small layouts and ranges",
   text="Every layout up to L letters in two GC configurations (in-place rewrite; append to an earlier short file then overflow), all data flushed, then every range the range check resolves x merge off/on with the mutation log on: every prefix of the pass's mutations and torn variants of each write is applied to the pre-GC directory and recovered; every key must read exactly its pre-GC reference-map entry.",
   note="SIGKILL model; no client writes during the pass. The in-place stale-tail defect found here was repaired (fix: commit 6923fbe).", design="4/C07"),
 "C04": dict(category="model_checking", technique="stateless model checking under a controlled scheduler, iterative preemption bounding, per-key history oracle",
   text="Six scenarios (2-4 threads, 1-3 keys forced into one leaf and one data file: two writers + reader; set/delete/reads of a flushed key; C-allocated value vs forced flush vs reader; rotation with spawned flush + periodic flusher + reader; hint-split rotation + dumper + reader; two buckets + flusher) are executed on the real store under a cooperative scheduler that owns every lock acquisition, file-system call, goroutine spawn and wait; EVERY interleaving with at most 2 preemptions (thorough 3), and every interleaving with lock releases as extra scheduling points at bound 1 (thorough 2), is run to completion; the recorded call/return history is checked against the statement (reads return a stored value not older than the latest write acknowledged before they began, distinct versions in real-time order, final state = highest version, again after exit + reopen). Deadlock, fatal exit and panics are violations.",
   note="Sequentially consistent interleavings at synchronisation / file-system granularity; cgo atomic; unsynchronised field accesses are not scheduling points. 2-4 threads, not 16 clients; preemption bound as stated.", design="4/C04"),
 "C05": dict(category="model_checking", technique="stateless model checking of one GC pass against a writer and a reader, iterative preemption bounding",
   text="On a store laid out so that a pass over [0,1] relocates the current records of keys a and b, one GC pass (direct, through HStore.GC, with a canceller) runs against a writer (set a / delete a / set b / two sets) and a reader under the controlled scheduler; every interleaving with at most 3 preemptions (thorough 4) at lock, file-system and spawn points - which bracket GC's newest-check, copy, repoint, hint write and source clear - is executed; oracle: C04's conditions with the documented relaxation for reads overlapping the pass, final state, and again after Close + exit + reopen with and without the tree dump. The get-then-set repoint race found here was repaired (fix: 55611a9).",
   note="One layout family (2 files in range), merge off; bounds as stated; sequentially consistent interleavings.", design="4/C05"),
 "C17": dict(category="model_checking", technique="schedule exploration of concurrent GC requests (part b) and exhaustive argument x layout enumeration with the file-system mutation log as oracle (part a)",
   text="Part (b): two and three concurrent HStore.GC requests for one bucket, every interleaving with at most 2 preemptions (thorough 3); a pass is in progress from the acceptance of its request until its goroutine ends (observed by the scheduler); overlap of passes or acceptance inside that window is a violation. Part (a): all (start,end) in [-1..7]^2 x no_gc_days x merge x pretend over layouts of 1..6 data files with gaps, old/recent first-record timestamps and empty/unflushed/flushed head; the memfs mutation log gives the exact set of files written, truncated or removed, judged by the property's own rules.",
   note="The check-then-spawn defect found by part (b) was repaired (fix: 9594a5d). Bounds as stated.", design="4/C17"),
 "C11": dict(category="model_checking", technique="exhaustive enumeration of client byte streams (scripts x every 2-segment split x every truncation) against the real server loop, reply-grammar + reference-map oracle",
   text="Every script of up to 2 letters (thorough 3) over a 60-letter alphabet of well-formed, special-key, unsupported and malformed commands, followed by a probe; each delivered whole, in every 2-segment split and cut at every byte through ServerConn.ServeOnce on an in-memory connection backed by the real StorageClient on memfs. Output must parse with the harness's reply grammar; modeled commands get exactly the reference map's reply, one per command, in order, none for noreply; other well-formed commands exactly one valid reply; unsupported ones an error or an orderly close; after a malformed region the probe is answered last unless the connection was closed; cut streams yield replies for complete commands only; a second connection is unaffected. Panics and would-block token waits are violations.",
   note="Error text/class of malformed commands not pinned; timeouts disabled by the virtual clock; accept loop not executed. The 17-hex-digit listing defect found here was repaired (fix: 7c17eae).", design="4/C11"),
 "C12": dict(category="model_checking", technique="same exhaustive byte-stream enumeration as C11, invariant on tokens and buffer counters at quiescence",
   text="The same scripts and delivery variants as C11 (values on both sides of body_c_str=64 and of the compression threshold); after each run and a forced flush the invariant is evaluated: all request tokens returned and GetData, SetData, FlushData, AllocRL count = size = 0; blocking on the token channel is detected structurally; freed C buffers are poisoned (MALLOC_PERTURB_) so that use-after-free shows as wrong reply bytes and double free aborts the worker.",
   note="Connections are served one after the other. Four leak defects found here were repaired (fix: 3cebae9, 35abb36, 982f0fa, 9c75ee9).", design="4/C12"),
 "C09": dict(category="fault_enumeration", technique="exhaustive single-fault enumeration over record files against an independent encoder/decoder",
   text="Records over the full product of key lengths {1,2,250} and value lengths around the 256-block boundaries (and 4 KB) with extreme flag/version/timestamp values are written with the repository's writer into files of 1..4 records; bytes must equal an independent reference encoder (own layout code, Go hash/crc32). Every byte x {flip bit 0, flip bit 7, 0x00, 0xff}, every subset of zeroed 256-byte blocks, every truncation length and 9 extreme values of every size field are applied; a positional read must return the original record or an error, a scan only original records at their offsets and every intact record before / after the damaged blocks.",
   note="Single damaged region per file (plus block subsets). The scan-abort defect found here was repaired (fix: a9098de).", design="4/C09"),
 "C10": dict(category="exploration", technique="bounded-exhaustive input grid through every storage location + exhaustive small hostile inputs in a sacrificial subprocess",
   text="8 content shapes x 15 sizes around the decision thresholds (record 256, probe 10 KB, ratio band, 64 KB, 1 MB+1) x 3 client flags, each read back byte-exact (get, ?key value hash, @ listing) from write buffer, flushed file, after restart with hints, after hint rebuild from data and after a relocating GC pass; stored records inspected with an independent decoder; C<->Go cross decompression; the safe decompressors are fed all strings <= 2 bytes, all size-consistent forged headers x payloads <= 3 bytes over 7 byte values and every single-byte substitution of four valid streams in a subprocess whose death or hang is the verdict.",
   note="Input-grid enumeration (degenerate, stateless form of the technique). Forged headers declaring > 1 MB are not enumerated. The unsafe C decompressor was repaired (fix: 9e16269).", design="4/C10"),
 "C14": dict(category="model_checking", technique="bounded-exhaustive small-scope enumeration of hint-file contents, in-package, against sorted-slice/map reference",
   text="Every choice of at most 4 (thorough 5) (item,file) pairs from 8 items (extreme hashes, same-hash groups, 255-byte key, a tombstone) x 3 source files (one possibly empty) x 3 index intervals: writer->reader round trip, total lookup of present and 9 kinds of absent keys (never an error), merge result per key = greatest (file,offset), sorted, collisions reported exactly; plus n in {0,1,4095,4096,4097,5000} with an index entry per item and HintBuffer.Dump order.",
   note="Key lengths 1/3/255 only. Two defects found here were repaired (fix: 131a428, 91f8ccd).", design="4/C14"),
 "C15": dict(category="exploration", technique="bounded-exhaustive configuration grid with directory inventory and listing aggregation oracle",
   text="Bucket counts 1/16/256 x served patterns (none, all, each single bucket, complements, all subsets of the corner buckets) x two keys per bucket found under the real hash: set/get/incr/delete through the protocol; served => stored, unserved => miss; per-bucket and upper-level listings recomputed from the served roots; after shutdown files exist only under served bucket directories and an independent scan finds only keys belonging to that bucket.",
   note="Input/configuration grid (stateless form of the technique). The fold used above bucket level is taken from the implementation.", design="4/C15"),
 "C16": dict(category="exploration", technique="bounded-exhaustive comparison with independently written reference functions",
   text="All byte strings of length <= 2 and every length 0..4096 x 6 fills for key hash, value hash and both FNV copies; CRC over lengths 0..600 and around every power of two up to 2^20, fed in 1-3 pieces, against signed-byte FNV-1a, MurmurHash3-x86-32 written from the published algorithm, beansdb's gen_hash rule and Go's hash/crc32.",
   note="Nothing is claimed beyond the stated input bounds.", design="4/C16"),
}

NOT_APPLICABLE = []

def main():
    checks = []
    for cid in sorted(CHECKS):
        c = CHECKS[cid]
        checks.append({
            "property_id": cid,
            "quick_cmd": "./vcheck %s --tier quick" % cid,
            "thorough_cmd": "./vcheck %s --tier thorough" % cid,
            "evidence_file": "/verif/evidence/%s.json" % cid,
            "replay_cmd_template": "./vcheck replay {path}",
            "engine": c.get("engine", "vworker"),
            "level_claimed": {"category": c["category"], "text": c["text"], "design_ref": c["design"]},
            "level_note": c["note"],
            "technique": c["technique"],
        })
    m = {
        "version": 1,
        "setup_cmd": "./setup.sh",
        "hooks": {
            "guard": "verif",
            "enable": "no hook is committed to /repo: every check copies /repo's working tree to /dev/shm, rewrites sync/os/time/go statements to the shims under /verif/shim (tools/vrewrite) and adds harness files built with -tags verif",
            "baseline_off_cmd": "cd /repo && GOFLAGS=-mod=mod GOPROXY=off GOSUMDB=off go test -vet=off -count=1 ./cmem/... ./loghub/... ./memcache/... ./quicklz/... ./store/... ./utils/...",
            "source_commits": [],
            "add_only": True,
        },
        "engines": [
            {"name": "vworker", "path": "/verif/harness", "serves_properties": sorted(CHECKS),
             "kind_free_text": "hand-written stateless model checker for Go: controlled cooperative scheduler (vsched) with iterative preemption bounding, in-memory file system with mutation log and crash-state generator (vos), virtual clock (vtime), explicit-state search over operation sequences with a reference-map oracle; instrumentation by source rewrite of a scratch copy of /repo"},
        ],
        "checks": checks,
        "not_applicable": NOT_APPLICABLE,
        "notes": "See DESIGN.md. Exit 2 from a check means broken machinery (build/rewrite/divergence), never a verdict.",
    }
    json.dump(m, open(os.path.join(VERIF, "MANIFEST.json"), "w"), indent=1)
    try:
        import jsonschema
        jsonschema.validate(m, json.load(open("/root/.vp/MANIFEST.schema.json")))
        print("MANIFEST.json valid,", len(checks), "checks")
    except ImportError:
        print("jsonschema not available; not validated")

if __name__ == "__main__":
    main()
