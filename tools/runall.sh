#!/bin/bash
# runall.sh <tier>: run every check (or those in $CHECKS) once, print one line each (exit code, wall seconds).
TIER=${1:-quick}
cd "$(dirname "$0")/.."
for c in ${CHECKS:-C01 C02 C03 C04 C05 C06 C07 C08 C09 C10 C11 C12 C13 C14 C15 C16 C17 C18}; do
  t0=$(date +%s)
  ./vcheck $c --tier $TIER > /tmp/runall_$c.log 2>&1; rc=$?
  t1=$(date +%s)
  echo "$c rc=$rc wall=$((t1-t0))s $(grep -c '^VIOLATION' /tmp/runall_$c.log) violations, $(grep -c '^KNOWN-FINDING' /tmp/runall_$c.log) known; $(tail -1 /tmp/runall_$c.log | cut -c1-160)"
done
