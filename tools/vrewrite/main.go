// vrewrite: source-to-source instrumentation of a scratch copy of gobeansdb.
//
//	vrewrite <module-path> <dir>...
//
// For every non-test .go file in the given directories:
//   - import "sync"            -> sync "<mod>/vshim/vsync"
//   - go f(a,b)                -> { a0,b0 := a,b; vsched.Go("file:line", func(){ f(a0,b0) }) }
//   - os.Open/OpenFile/...     -> vos.*
//   - ioutil.ReadFile/WriteFile, filepath.Glob -> vos.*
//   - time.Now/Since/Sleep     -> vtime.*
//   - debug.FreeOSMemory       -> vtime.Noop
//   - package memcache: x.Chan <- v / <-x.Chan (request-limiter tokens) -> vsched.ChanSendInt / ChanRecvInt
//
// Any construct it does not understand makes it exit non-zero (the check then
// exits 2 = broken machinery, never a verdict).
package main

import (
	"bytes"
	"fmt"
	"go/ast"
	"go/format"
	"go/parser"
	"go/token"
	"os"
	"path/filepath"
	"strconv"
	"strings"
)

var osFuncs = map[string]bool{
	"Open": true, "OpenFile": true, "Create": true, "Stat": true, "Rename": true,
	"Remove": true, "RemoveAll": true, "Truncate": true, "Mkdir": true, "MkdirAll": true,
	"File": true,
}
var ioutilFuncs = map[string]bool{"ReadFile": true, "WriteFile": true}
var filepathFuncs = map[string]bool{"Glob": true}
var timeFuncs = map[string]bool{"Now": true, "Since": true, "Sleep": true}
var debugFuncs = map[string]string{"FreeOSMemory": "Noop"}

var skipFiles = map[string]bool{"store/profile.go": true}

func main() {
	if len(os.Args) < 3 {
		fmt.Fprintln(os.Stderr, "usage: vrewrite <module> <dir>...")
		os.Exit(2)
	}
	mod := os.Args[1]
	n := 0
	for _, dir := range os.Args[2:] {
		ents, err := os.ReadDir(dir)
		if err != nil {
			fatal(err)
		}
		for _, e := range ents {
			name := e.Name()
			if e.IsDir() || !strings.HasSuffix(name, ".go") || strings.HasSuffix(name, "_test.go") {
				continue
			}
			p := filepath.Join(dir, name)
			if skipFiles[filepath.Base(dir)+"/"+name] {
				continue
			}
			if rewriteFile(mod, p) {
				n++
			}
		}
	}
	fmt.Printf("vrewrite: %d files rewritten\n", n)
}

func fatal(err error) {
	fmt.Fprintln(os.Stderr, "vrewrite:", err)
	os.Exit(2)
}

type rw struct {
	mod     string
	fset    *token.FileSet
	file    *ast.File
	path    string
	imports map[string]string // local name -> import path
	need    map[string]bool   // shim packages needed
	changed bool
	tmpN    int
}

func rewriteFile(mod, path string) bool {
	fset := token.NewFileSet()
	f, err := parser.ParseFile(fset, path, nil, parser.ParseComments)
	if err != nil {
		fatal(err)
	}
	r := &rw{mod: mod, fset: fset, file: f, path: path, imports: map[string]string{}, need: map[string]bool{}}
	for _, im := range f.Imports {
		p, _ := strconv.Unquote(im.Path.Value)
		name := filepath.Base(p)
		if im.Name != nil {
			name = im.Name.Name
		}
		r.imports[name] = p
	}
	// 1. sync import
	for _, im := range f.Imports {
		p, _ := strconv.Unquote(im.Path.Value)
		if p == "sync" {
			if im.Name != nil && im.Name.Name != "sync" {
				fatal(fmt.Errorf("%s: renamed sync import not supported", path))
			}
			im.Path.Value = strconv.Quote(mod + "/vshim/vsync")
			im.Name = ast.NewIdent("sync")
			r.changed = true
		}
	}
	// 2. selectors and go statements
	r.walk(f)
	if !r.changed {
		return false
	}
	// 3. add shim imports, drop imports that became unused
	used := map[string]bool{}
	ast.Inspect(f, func(n ast.Node) bool {
		if se, ok := n.(*ast.SelectorExpr); ok {
			if id, ok := se.X.(*ast.Ident); ok && id.Obj == nil {
				used[id.Name] = true
			}
		}
		return true
	})
	for _, d := range f.Decls {
		gd, ok := d.(*ast.GenDecl)
		if !ok || gd.Tok != token.IMPORT {
			continue
		}
		var keep []ast.Spec
		for _, s := range gd.Specs {
			is := s.(*ast.ImportSpec)
			p, _ := strconv.Unquote(is.Path.Value)
			name := filepath.Base(p)
			if is.Name != nil {
				name = is.Name.Name
			}
			switch p {
			case "os", "io/ioutil", "path/filepath", "time", "runtime/debug":
				if !used[name] {
					continue
				}
			}
			keep = append(keep, s)
		}
		gd.Specs = keep
	}
	var specs []ast.Spec
	for _, s := range []string{"vos", "vtime", "vsched"} {
		if r.need[s] {
			specs = append(specs, &ast.ImportSpec{Path: &ast.BasicLit{Kind: token.STRING, Value: strconv.Quote(mod + "/vshim/" + s)}})
		}
	}
	if len(specs) > 0 {
		// insert as a new import declaration after the last import decl
		idx := 0
		for i, d := range f.Decls {
			if gd, ok := d.(*ast.GenDecl); ok && gd.Tok == token.IMPORT {
				idx = i + 1
			}
		}
		nd := &ast.GenDecl{Tok: token.IMPORT, Lparen: 1, Specs: specs}
		f.Decls = append(f.Decls[:idx], append([]ast.Decl{nd}, f.Decls[idx:]...)...)
	}
	// remove empty import decls
	var decls []ast.Decl
	for _, d := range f.Decls {
		if gd, ok := d.(*ast.GenDecl); ok && gd.Tok == token.IMPORT && len(gd.Specs) == 0 {
			continue
		}
		decls = append(decls, d)
	}
	f.Decls = decls

	var buf bytes.Buffer
	if err := format.Node(&buf, fset, f); err != nil {
		fatal(fmt.Errorf("%s: %v", path, err))
	}
	if err := os.WriteFile(path, buf.Bytes(), 0644); err != nil {
		fatal(err)
	}
	return true
}

func (r *rw) pkgSel(e ast.Expr) (pkgPath, sel string, se *ast.SelectorExpr) {
	se, ok := e.(*ast.SelectorExpr)
	if !ok {
		return
	}
	id, ok := se.X.(*ast.Ident)
	if !ok || id.Obj != nil {
		return "", "", nil
	}
	p, ok := r.imports[id.Name]
	if !ok {
		return "", "", nil
	}
	return p, se.Sel.Name, se
}

func (r *rw) walk(root ast.Node) {
	ast.Inspect(root, func(n ast.Node) bool {
		switch x := n.(type) {
		case *ast.SelectorExpr:
			p, sel, se := r.pkgSel(x)
			if se == nil {
				return true
			}
			switch {
			case p == "os" && osFuncs[sel]:
				se.X = ast.NewIdent("vos")
				r.need["vos"] = true
				r.changed = true
			case p == "io/ioutil" && ioutilFuncs[sel]:
				se.X = ast.NewIdent("vos")
				r.need["vos"] = true
				r.changed = true
			case p == "path/filepath" && filepathFuncs[sel]:
				se.X = ast.NewIdent("vos")
				r.need["vos"] = true
				r.changed = true
			case p == "time" && timeFuncs[sel]:
				se.X = ast.NewIdent("vtime")
				r.need["vtime"] = true
				r.changed = true
			case p == "runtime/debug" && debugFuncs[sel] != "":
				se.X = ast.NewIdent("vtime")
				se.Sel = ast.NewIdent(debugFuncs[sel])
				r.need["vtime"] = true
				r.changed = true
			}
			return true
		case *ast.AssignStmt:
			for i, e := range x.Rhs {
				if c := r.tokenChanRecv(e); c != nil {
					x.Rhs[i] = c
				}
			}
		case *ast.BlockStmt:
			r.rewriteList(x.List)
		case *ast.CaseClause:
			r.rewriteList(x.Body)
		case *ast.CommClause:
			r.rewriteList(x.Body)
		case *ast.LabeledStmt:
			if gs, ok := x.Stmt.(*ast.GoStmt); ok {
				x.Stmt = r.rewriteGo(gs)
			}
		case *ast.GoStmt:
			// reached only if not replaced by its parent list (e.g. "if x { } else go f()" is not valid Go,
			// so every go statement sits in a list or under a label); replaced ones are no longer in the tree.
		}
		return true
	})
	// verify no go statement (and no raw operation on the token channel) is left
	ast.Inspect(root, func(n ast.Node) bool {
		if gs, ok := n.(*ast.GoStmt); ok {
			fatal(fmt.Errorf("%s: go statement at %s not rewritten", r.path, r.fset.Position(gs.Pos())))
		}
		if ss, ok := n.(*ast.SendStmt); ok && r.isTokenChan(ss.Chan) {
			fatal(fmt.Errorf("%s: send on the token channel at %s not rewritten", r.path, r.fset.Position(ss.Pos())))
		}
		if u, ok := n.(*ast.UnaryExpr); ok && u.Op == token.ARROW && r.isTokenChan(u.X) {
			fatal(fmt.Errorf("%s: receive from the token channel at %s not rewritten", r.path, r.fset.Position(u.Pos())))
		}
		return true
	})
}

func (r *rw) rewriteList(list []ast.Stmt) {
	for i, s := range list {
		if gs, ok := s.(*ast.GoStmt); ok {
			list[i] = r.rewriteGo(gs)
		}
		if ss, ok := s.(*ast.SendStmt); ok && r.isTokenChan(ss.Chan) {
			// x.Chan <- v  ->  vsched.ChanSendInt(x.Chan, v): the request limiter's token channel becomes a blocking scheduling point
			list[i] = &ast.ExprStmt{X: &ast.CallExpr{Fun: &ast.SelectorExpr{X: ast.NewIdent("vsched"), Sel: ast.NewIdent("ChanSendInt")}, Args: []ast.Expr{ss.Chan, ss.Value}}}
			r.need["vsched"] = true
			r.changed = true
		}
	}
}

// isTokenChan: the "Chan" field of a ReqLimiter (package memcache only).
func (r *rw) isTokenChan(e ast.Expr) bool {
	se, ok := e.(*ast.SelectorExpr)
	return ok && se.Sel.Name == "Chan" && r.file.Name.Name == "memcache"
}

// tokenChanRecv: <-x.Chan  ->  vsched.ChanRecvInt(x.Chan)
func (r *rw) tokenChanRecv(e ast.Expr) ast.Expr {
	u, ok := e.(*ast.UnaryExpr)
	if !ok || u.Op != token.ARROW || !r.isTokenChan(u.X) {
		return nil
	}
	r.need["vsched"] = true
	r.changed = true
	return &ast.CallExpr{Fun: &ast.SelectorExpr{X: ast.NewIdent("vsched"), Sel: ast.NewIdent("ChanRecvInt")}, Args: []ast.Expr{u.X}}
}

func isLiteralArg(e ast.Expr) bool {
	switch x := e.(type) {
	case *ast.BasicLit:
		return true
	case *ast.Ident:
		return x.Name == "true" || x.Name == "false" || x.Name == "nil"
	case *ast.UnaryExpr:
		return isLiteralArg(x.X)
	case *ast.ParenExpr:
		return isLiteralArg(x.X)
	}
	return false
}

func (r *rw) rewriteGo(gs *ast.GoStmt) ast.Stmt {
	call := gs.Call
	pos := r.fset.Position(gs.Pos())
	loc := fmt.Sprintf("%s:%d", filepath.Base(pos.Filename), pos.Line)
	var lhs, rhs []ast.Expr
	newArgs := make([]ast.Expr, len(call.Args))
	for i, a := range call.Args {
		if isLiteralArg(a) {
			newArgs[i] = a
			continue
		}
		r.tmpN++
		id := ast.NewIdent(fmt.Sprintf("vgoArg%d", r.tmpN))
		lhs = append(lhs, id)
		rhs = append(rhs, a)
		newArgs[i] = ast.NewIdent(id.Name)
	}
	inner := &ast.CallExpr{Fun: call.Fun, Args: newArgs, Ellipsis: call.Ellipsis}
	fl := &ast.FuncLit{
		Type: &ast.FuncType{Params: &ast.FieldList{}},
		Body: &ast.BlockStmt{List: []ast.Stmt{&ast.ExprStmt{X: inner}}},
	}
	spawn := &ast.ExprStmt{X: &ast.CallExpr{
		Fun:  &ast.SelectorExpr{X: ast.NewIdent("vsched"), Sel: ast.NewIdent("Go")},
		Args: []ast.Expr{&ast.BasicLit{Kind: token.STRING, Value: strconv.Quote(loc)}, fl},
	}}
	r.need["vsched"] = true
	r.changed = true
	blk := &ast.BlockStmt{}
	if len(lhs) > 0 {
		blk.List = append(blk.List, &ast.AssignStmt{Lhs: lhs, Tok: token.DEFINE, Rhs: rhs})
	}
	blk.List = append(blk.List, spawn)
	// nested go statements / selectors inside the function literal are handled by the ongoing Inspect,
	// because the literal is still part of the tree below this block.
	return blk
}
