#!/bin/bash
# verify_seed.sh <Cxx> [check ids...]: confirm a seeded change delivered in /tmp/seed/<Cxx>-out:
#  1. the repository's own suite passes with the change, 2. the demonstration fails with it and passes without,
#  3. which of our quick checks report it. Results go to /verif/seeded/<Cxx>/.
set -u
ID=$1; shift
CHECKS=${*:-$ID}
SEEDROOT=${SEEDROOT:-/tmp/seed}     # where the sub-agents left <ID>-out
DEST=${DEST:-/verif/seeded}         # where confirmed seeds are kept
export GOFLAGS=-mod=mod GOPROXY=off GOSUMDB=off GOTOOLCHAIN=local
OUT=$SEEDROOT/$ID-out
W=/tmp/seedverify/$ID
rm -rf $W; mkdir -p $W/with $W/without $W/tb $DEST/$ID
git -C /repo archive HEAD | tar -x -C $W/with
git -C /repo archive HEAD | tar -x -C $W/without
( cd $W/with && git init -q . >/dev/null 2>&1; patch -p1 -s < $OUT/patch.diff ) || { echo "PATCH FAILED"; exit 1; }
cp $OUT/patch.diff $DEST/$ID/patch.diff
# demo files: *_test.go go to the package named in their path hint (first line comment "// pkg: store") or by package clause
for f in $OUT/*_test.go; do
  [ -f "$f" ] || continue
  pkg=$(grep -m1 '^package ' $f | awk '{print $2}')
  case $pkg in
    store|memcache|gobeansdb|cmem|utils|quicklz|config) d=$pkg;;
    *_test) d=${pkg%_test};;
    *) d=store;;
  esac
  cp $f $W/with/$d/; cp $f $W/without/$d/; cp $f $DEST/$ID/
  echo "$d" > $W/demopkg
done
D=$(cat $W/demopkg 2>/dev/null || echo store)
TESTNAME=$(grep -ho 'func Test[A-Za-z0-9_]*' $OUT/*_test.go 2>/dev/null | sed 's/func //' | sort -u | paste -sd'|')
TESTNAME="($TESTNAME)"
echo "== demo: package $D test $TESTNAME"
BASE=""
[ "$D" = store ] && BASE="-args -base=$W/tb"
( cd $W/with && go test -vet=off -count=1 -run "^${TESTNAME}" ./$D/ $BASE > $W/demo_with.log 2>&1 ); RW=$?
( cd $W/without && go test -vet=off -count=1 -run "^${TESTNAME}" ./$D/ $BASE > $W/demo_without.log 2>&1 ); RWO=$?
echo "demo with change: exit $RW ; without: exit $RWO"
# suite with the change (demo file removed)
rm -f $W/with/*/zz_seed_demo_test.go $W/with/*/zz_seed*_test.go
( cd $W/with && { go test -vet=off -count=1 ./cmem/... ./loghub/... ./memcache/... ./quicklz/... ./utils/... 2>&1; go test -vet=off -count=1 -timeout 25m ./store/ -args -base=$W/tb 2>&1; } | grep -E "^(ok|FAIL|---|panic)" > $W/suite.log ); 
SUITE=$(grep -c "^FAIL\|^--- FAIL\|^panic" $W/suite.log)
echo "suite with change: $(grep -c '^ok' $W/suite.log) packages ok, $SUITE failures"
RES=""
for c in $CHECKS; do
  [ "$c" = none ] && continue
  ( cd ${VERIF_DIR:-/verif} && VERIF_REPO=$W/with ./vcheck $c --tier quick > $W/check_$c.log 2>&1 ); RC=$?
  NV=$(grep -c "^VIOLATION" $W/check_$c.log)
  echo "check $c: exit $RC, $NV violation lines; first: $(grep -m1 -A1 '^VIOLATION' $W/check_$c.log | tail -1 | cut -c1-300)"
  RES="$RES $c:$RC:$NV"
done
rm -rf ${VERIF_DIR:-/verif}/replays
python3 - <<PY
import json
json.dump({"property": "$ID", "demo_package": "$D", "demo_test": "$TESTNAME", "demo_exit_with_change": $RW, "demo_exit_without_change": $RWO,
  "suite_failures_with_change": $SUITE, "checks_run": "$RES".split(), "notes_file": "notes.md"}, open("$DEST/$ID/verify.json","w"), indent=1)
PY
cp $OUT/notes.md $DEST/$ID/notes.md 2>/dev/null
rm -rf $W/with $W/without
