// vmerge prints the number of distinct uint64 values in the given binary files.
package main

import (
	"encoding/binary"
	"fmt"
	"os"
	"sort"
)

func main() {
	var all []uint64
	for _, p := range os.Args[1:] {
		b, err := os.ReadFile(p)
		if err != nil {
			fmt.Fprintln(os.Stderr, err)
			os.Exit(2)
		}
		for i := 0; i+8 <= len(b); i += 8 {
			all = append(all, binary.LittleEndian.Uint64(b[i:]))
		}
	}
	sort.Slice(all, func(i, j int) bool { return all[i] < all[j] })
	n := 0
	for i, v := range all {
		if i == 0 || v != all[i-1] {
			n++
		}
	}
	fmt.Println(n)
}
