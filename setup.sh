#!/bin/sh
# Build the framework from files on disk only (offline) and warm the Go build cache.
set -e
cd "$(dirname "$0")"
export GOFLAGS=-mod=mod GOPROXY=off GOSUMDB=off GOTOOLCHAIN=local
mkdir -p bin .cache/go-build evidence
./vcheck build
