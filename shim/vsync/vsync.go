// Package vsync replaces "sync" in the rewritten code. Without an active
// scheduler it behaves exactly like sync; with one, Lock/RLock/Wait are
// scheduling points and blocked threads are known to the scheduler.
package vsync

import (
	"sync"

	"github.com/douban/gobeansdb/vshim/vsched"
)

type Once = sync.Once
type Pool = sync.Pool
type Map = sync.Map
type Cond = sync.Cond
type Locker = sync.Locker

func NewCond(l Locker) *Cond { return sync.NewCond(l) }

// YieldOnRelease makes Unlock/RUnlock/Done scheduling points as well.
var YieldOnRelease = false

type Mutex struct {
	mu    sync.Mutex
	held  bool
	owner int
	reg   *vsched.Sched
}

func (m *Mutex) register(s *vsched.Sched) {
	if m.reg != s {
		m.reg = s
		s.AtCleanup(func() { m.held = false; m.reg = nil })
	}
}

func (m *Mutex) Lock() {
	s := vsched.Cur()
	if s == nil {
		m.mu.Lock()
		return
	}
	if s.Poisoned() {
		return
	}
	s.Wait("lock", func() bool { return !m.held })
	m.held = true
	m.owner = s.CurID()
	m.register(s)
}

func (m *Mutex) TryLock() bool {
	s := vsched.Cur()
	if s == nil {
		return m.mu.TryLock()
	}
	if s.Poisoned() {
		return false
	}
	s.Point("trylock")
	if m.held {
		return false
	}
	m.held = true
	m.owner = s.CurID()
	m.register(s)
	return true
}

func (m *Mutex) Unlock() {
	s := vsched.Cur()
	if s == nil {
		m.mu.Unlock()
		return
	}
	if s.Poisoned() {
		m.held = false
		return
	}
	if !m.held {
		panic("vsync: unlock of unlocked mutex")
	}
	m.held = false
	if YieldOnRelease {
		s.Point("unlock")
	}
}

type RWMutex struct {
	mu      sync.RWMutex
	writer  bool
	readers int
	reg     *vsched.Sched
}

func (m *RWMutex) register(s *vsched.Sched) {
	if m.reg != s {
		m.reg = s
		s.AtCleanup(func() { m.writer = false; m.readers = 0; m.reg = nil })
	}
}

func (m *RWMutex) Lock() {
	s := vsched.Cur()
	if s == nil {
		m.mu.Lock()
		return
	}
	if s.Poisoned() {
		return
	}
	s.Wait("wlock", func() bool { return !m.writer && m.readers == 0 })
	m.writer = true
	m.register(s)
}

func (m *RWMutex) Unlock() {
	s := vsched.Cur()
	if s == nil {
		m.mu.Unlock()
		return
	}
	if s.Poisoned() {
		m.writer = false
		return
	}
	if !m.writer {
		panic("vsync: unlock of unlocked rwmutex")
	}
	m.writer = false
	if YieldOnRelease {
		s.Point("wunlock")
	}
}

func (m *RWMutex) RLock() {
	s := vsched.Cur()
	if s == nil {
		m.mu.RLock()
		return
	}
	if s.Poisoned() {
		return
	}
	s.Wait("rlock", func() bool { return !m.writer })
	m.readers++
	m.register(s)
}

func (m *RWMutex) RUnlock() {
	s := vsched.Cur()
	if s == nil {
		m.mu.RUnlock()
		return
	}
	if s.Poisoned() {
		if m.readers > 0 {
			m.readers--
		}
		return
	}
	if m.readers <= 0 {
		panic("vsync: runlock of unlocked rwmutex")
	}
	m.readers--
	if YieldOnRelease {
		s.Point("runlock")
	}
}

func (m *RWMutex) RLocker() Locker { return (*rlocker)(m) }

type rlocker RWMutex

func (r *rlocker) Lock()   { (*RWMutex)(r).RLock() }
func (r *rlocker) Unlock() { (*RWMutex)(r).RUnlock() }

type WaitGroup struct {
	wg sync.WaitGroup
	n  int
}

func (w *WaitGroup) Add(d int) {
	s := vsched.Cur()
	if s == nil {
		w.wg.Add(d)
		return
	}
	w.n += d
	if w.n < 0 && !s.Poisoned() {
		panic("vsync: negative WaitGroup counter")
	}
}

func (w *WaitGroup) Done() {
	s := vsched.Cur()
	if s == nil {
		w.wg.Done()
		return
	}
	w.n--
	if s.Poisoned() {
		return
	}
	if w.n < 0 {
		panic("vsync: negative WaitGroup counter")
	}
	if YieldOnRelease {
		s.Point("wgdone")
	}
}

func (w *WaitGroup) Wait() {
	s := vsched.Cur()
	if s == nil {
		w.wg.Wait()
		return
	}
	if s.Poisoned() {
		return
	}
	s.Wait("wgwait", func() bool { return w.n <= 0 })
}
