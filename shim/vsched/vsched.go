// Package vsched is a cooperative, controlled scheduler for the goroutines of
// the code under test. Exactly one registered thread runs at any time; every
// synchronisation operation, file-system call and goroutine spawn of the
// rewritten code is a scheduling point where the scheduler decides who runs
// next. When no scheduler is active (Cur()==nil) all shims are pass-through.
package vsched

import (
	"fmt"
	"runtime"
	"strings"
	"sync"
	"sync/atomic"
)

// PointInfo describes one recorded choice point of an execution.
type PointInfo struct {
	N          int    // number of enabled threads (alternatives)
	CurEnabled bool   // the running thread was still enabled (switching away = preemption)
	Tid        int    // running thread at the point
	Kind       string // kind of operation about to be performed by Tid
	Chosen     int    // index chosen
	ChosenTid  int
}

// Result of one execution.
type Result struct {
	Choices    []int
	Points     []PointInfo
	Aborted    string // "", "deadlock", "horizon", "fatal", "panic", "diverged"
	Msg        string // fatal message / panic value / divergence text
	Stacks     string
	Threads    int
	Steps      uint64
	Spawned    []string
	Unfinished []string // threads abandoned at the end (name@kind)
	Threads2   []ThreadEvent
}

// ThreadEvent records the life of one thread in scheduler steps.
type ThreadEvent struct {
	ID    int
	Name  string
	Spawn uint64 // step at which it was spawned
	Start uint64 // step at which it first ran (0 = never)
	End   uint64 // step at which it finished (0 = never)
}

type Thread struct {
	id       int
	name     string
	wake     chan struct{}
	fn       func()
	done     bool
	poisoned bool
	cond     func() bool // nil => enabled
	sleeping bool
	sleepAt  uint64
	steps    int
	kind     string // kind of the pending operation
	client   bool
	selfExit bool
	recSteps int
}

type Opts struct {
	Prefix         []int    // choices to replay at recorded points; afterwards choice 0
	Expect         []string // optional fingerprints ("tid:kind") for the prefix points; mismatch => diverged
	Horizon        int      // max steps of a single thread (0 = 20000)
	YieldOnRelease bool
}

type Sched struct {
	opts       Opts
	threads    []*Thread
	live       []*Thread
	cur        *Thread
	recording  bool
	res        Result
	stepCount  uint64
	aborting   bool
	doneCh     chan struct{}
	cleanup    []func()
	enabledBuf []*Thread
	exited     bool
	frozen     bool
	isFree     bool
	freeWG     sync.WaitGroup
	events     []ThreadEvent
}

var cur *Sched

// free is set while harness bodies run free (real goroutines, real locks) for
// the separate -race pass; shims see Cur()==nil and pass through.
var free *Sched

// Cur returns the active scheduler or nil.
func Cur() *Sched { return cur }

// Active reports whether a controlled scheduler is attached.
func Active() bool { return cur != nil }

// Run executes body as thread 0 under a fresh scheduler and returns when the
// execution is over (body returned, or the execution was aborted). All other
// threads still alive at that moment are abandoned (poisoned and unwound).
func Run(opts Opts, body func(s *Sched)) *Result {
	if cur != nil {
		panic("vsched: nested Run")
	}
	if opts.Horizon == 0 {
		opts.Horizon = 20000
	}
	s := &Sched{opts: opts, doneCh: make(chan struct{})}
	t0 := &Thread{id: 0, name: "main", wake: make(chan struct{}, 1)}
	s.threads = append(s.threads, t0)
	s.live = append(s.live, t0)
	s.events = append(s.events, ThreadEvent{ID: 0, Name: "main"})
	s.cur = t0
	cur = s
	go func() {
		defer func() {
			if e := recover(); e != nil {
				if s.res.Aborted == "" {
					s.res.Aborted = "panic"
					s.res.Msg = fmt.Sprintf("%v", e)
					s.res.Stacks = stack()
				}
			}
			s.finish(t0)
		}()
		body(s)
	}()
	<-s.doneCh
	cur = nil
	s.res.Threads = len(s.threads)
	s.res.Steps = s.stepCount
	return &s.res
}

func stack() string {
	buf := make([]byte, 16384)
	n := runtime.Stack(buf, false)
	return string(buf[:n])
}

// finish is called on thread 0's goroutine when the execution is over.
func (s *Sched) finish(t0 *Thread) {
	s.exited = true
	t0.poisoned = true
	s.killOthers(t0, true)
	t0.done = true
	for _, f := range s.cleanup {
		f()
	}
	close(s.doneCh)
}

func (s *Sched) killOthers(t0 *Thread, record bool) {
	for _, t := range s.threads {
		if t.done || t == t0 {
			continue
		}
		if record {
			s.res.Unfinished = append(s.res.Unfinished, t.name+"@"+t.kind)
		}
		t.poisoned = true
		s.cur = t
		t.wake <- struct{}{}
		<-t0.wake // the dying thread signals back
	}
	s.cur = t0
	s.live = s.live[:0]
	s.live = append(s.live, t0)
	s.frozen = false
}

// KillOthers models process exit seen from thread 0: every other thread is
// abandoned where it is and never runs again.
func (s *Sched) KillOthers() {
	if s.isFree {
		s.freeWG.Wait() // real goroutines cannot be abandoned: let them finish
		return
	}
	if s.cur.id != 0 {
		panic("vsched: KillOthers not on thread 0")
	}
	if s.cur.poisoned {
		return
	}
	s.killOthers(s.cur, false)
}

// AtCleanup registers a function run when the execution ends (used by vsync to
// force-release locks left held by abandoned threads).
func (s *Sched) AtCleanup(f func()) { s.cleanup = append(s.cleanup, f) }

// Poisoned reports whether the calling thread is being unwound; shim
// operations must then be inert.
func (s *Sched) Poisoned() bool { return s.cur.poisoned }

func (s *Sched) CurID() int { return s.cur.id }

func (s *Sched) Steps() uint64 {
	if s.isFree {
		return atomic.AddUint64(&s.stepCount, 1)
	}
	return s.stepCount
}

// RunFree runs body with a scheduler object whose operations are implemented
// with real goroutines and a WaitGroup: the code under test runs free (for -race).
func RunFree(body func(s *Sched)) {
	s := &Sched{isFree: true}
	free = s
	body(s)
	s.freeWG.Wait()
	free = nil
}

// Free reports whether s is the free-running pseudo scheduler.
func (s *Sched) Free() bool { return s.isFree }

// Go registers a new thread. In pass-through mode it is a plain go statement.
func Go(name string, f func()) {
	s := cur
	if s == nil {
		if fs := free; fs != nil {
			fs.freeWG.Add(1)
			go func() {
				defer fs.freeWG.Done()
				f()
			}()
			return
		}
		go f()
		return
	}
	s.spawn(name, f, false)
}

func (s *Sched) spawn(name string, f func(), client bool) *Thread {
	if s.cur.poisoned {
		return nil
	}
	t := &Thread{id: len(s.threads), name: name, wake: make(chan struct{}, 1), fn: f, client: client, kind: "start"}
	s.threads = append(s.threads, t)
	s.live = append(s.live, t)
	s.events = append(s.events, ThreadEvent{ID: t.id, Name: name, Spawn: s.stepCount})
	s.res.Spawned = append(s.res.Spawned, name)
	go func() {
		<-t.wake
		if t.poisoned {
			t.done = true
			s.threads[0].wake <- struct{}{}
			return
		}
		defer s.threadExit(t)
		s.events[t.id].Start = s.stepCount
		t.fn()
	}()
	if !client {
		s.Point("spawn")
	}
	return t
}

func (s *Sched) threadExit(t *Thread) {
	if e := recover(); e != nil {
		if !t.poisoned {
			// a panic in a spawned goroutine kills the real process
			if s.res.Aborted == "" {
				s.res.Aborted = "panic"
				s.res.Msg = fmt.Sprintf("thread %s: %v", t.name, e)
				s.res.Stacks = stack()
			}
			s.aborting = true
		}
	}
	t.done = true
	if !t.poisoned {
		s.events[t.id].End = s.stepCount + 1
	}
	if t.poisoned {
		// being unwound by finish(): report back to thread 0's goroutine
		if !t.selfExit {
			s.threads[0].wake <- struct{}{}
		}
		return
	}
	s.removeLive(t)
	s.stepCount++
	if s.aborting {
		s.handToMainForAbort()
		return
	}
	next := s.pick(t, false, "exit")
	if next == nil {
		// nobody can run: deadlock (thread 0 is never done here)
		s.abortFromNonMain("deadlock", s.describeBlocked())
		return
	}
	s.cur = next
	next.wake <- struct{}{}
}

func (s *Sched) removeLive(t *Thread) {
	for i, x := range s.live {
		if x == t {
			s.live = append(s.live[:i], s.live[i+1:]...)
			return
		}
	}
}

func (s *Sched) describeBlocked() string {
	var sb strings.Builder
	for _, t := range s.live {
		fmt.Fprintf(&sb, "thread %d %s waiting at %s; ", t.id, t.name, t.kind)
	}
	return sb.String()
}

// handToMainForAbort transfers control to thread 0, which will panic with
// abortSignal at its current wait point.
func (s *Sched) handToMainForAbort() {
	t0 := s.threads[0]
	s.cur = t0
	t0.wake <- struct{}{}
}

func (s *Sched) abortFromNonMain(kind, msg string) {
	if s.res.Aborted == "" {
		s.res.Aborted = kind
		s.res.Msg = msg
	}
	s.aborting = true
	s.handToMainForAbort()
}

// Abort ends the execution from the calling thread (used for Fatalf = process
// death, and by harness code).
func (s *Sched) Abort(kind, msg string) {
	t := s.cur
	if t.poisoned {
		return
	}
	if s.res.Aborted == "" {
		s.res.Aborted = kind
		s.res.Msg = msg
		s.res.Stacks = stack()
	}
	s.aborting = true
	s.die(t)
}

// die terminates the calling thread during an abort: thread 0 unwinds (its
// deferred finish() cleans up), any other thread hands control to thread 0.
func (s *Sched) die(t *Thread) {
	t.poisoned = true
	if t.id == 0 {
		runtime.Goexit()
	}
	t.selfExit = true
	t.done = true
	s.removeLive(t)
	s.handToMainForAbort()
	runtime.Goexit()
}

func (s *Sched) enabled(t *Thread) bool {
	if t.done {
		return false
	}
	if s.frozen && t.id != 0 {
		return false
	}
	if t.cond != nil && !t.cond() {
		return false
	}
	return true
}

// pick chooses the next thread. self is the thread arriving at the point
// (nil-able when exiting); selfAlive says whether self may continue.
func (s *Sched) pick(self *Thread, selfAlive bool, kind string) *Thread {
	// fast path outside recording: running thread continues if it can
	if !s.recording && selfAlive && !self.sleeping && s.enabled(self) {
		return self
	}
	en := s.enabledBuf[:0]
	curEnabled := false
	if selfAlive && !self.sleeping && s.enabled(self) {
		en = append(en, self)
		curEnabled = true
	}
	for _, t := range s.live {
		if t == self && selfAlive {
			continue
		}
		if t.sleeping {
			if s.stepCount > t.sleepAt && s.enabled(t) {
				en = append(en, t)
			}
			continue
		}
		if s.enabled(t) {
			en = append(en, t)
		}
	}
	if len(en) == 0 {
		// only sleepers (including possibly self) left: time passes
		if selfAlive && self.sleeping && s.enabled(self) {
			en = append(en, self)
		}
		for _, t := range s.live {
			if t != self && t.sleeping && s.enabled(t) {
				en = append(en, t)
			}
		}
	}
	s.enabledBuf = en
	if len(en) == 0 {
		return nil
	}
	idx := 0
	if s.recording && len(en) > 1 {
		k := len(s.res.Points)
		tid := -1
		if self != nil {
			tid = self.id
		}
		if k < len(s.opts.Prefix) {
			idx = s.opts.Prefix[k]
			if idx < 0 || idx >= len(en) {
				s.diverge(fmt.Sprintf("choice %d out of range %d at point %d (%d:%s)", idx, len(en), k, tid, kind))
				idx = 0
			}
			if k < len(s.opts.Expect) {
				fp := fmt.Sprintf("%d:%s:%d", tid, kind, len(en))
				if s.opts.Expect[k] != fp {
					s.diverge(fmt.Sprintf("point %d fingerprint %s, expected %s", k, fp, s.opts.Expect[k]))
				}
			}
		}
		s.res.Points = append(s.res.Points, PointInfo{N: len(en), CurEnabled: curEnabled, Tid: tid, Kind: kind, Chosen: idx, ChosenTid: en[idx].id})
		s.res.Choices = append(s.res.Choices, idx)
	}
	nx := en[idx]
	nx.sleeping = false
	return nx
}

func (s *Sched) diverge(msg string) {
	if s.res.Aborted == "" {
		s.res.Aborted = "diverged"
		s.res.Msg = msg
	}
	s.aborting = true
}

// Fingerprints returns the fingerprints of the recorded points (for Expect).
func (r *Result) Fingerprints() []string {
	out := make([]string, len(r.Points))
	for i, p := range r.Points {
		out[i] = fmt.Sprintf("%d:%s:%d", p.Tid, p.Kind, p.N)
	}
	return out
}

// Wait is the general scheduling point: the calling thread is enabled iff
// cond()==true (cond==nil: always). On return cond() holds and no other thread
// has run since it was evaluated.
func (s *Sched) Wait(kind string, cond func() bool) {
	t := s.cur
	if t.poisoned {
		return
	}
	t.steps++
	s.stepCount++
	if s.recording {
		t.recSteps++
	}
	if t.recSteps > s.opts.Horizon || t.steps > 5000000 {
		s.Abort("horizon", fmt.Sprintf("thread %d %s exceeded step horizon (%d recorded, %d total) at %s", t.id, t.name, t.recSteps, t.steps, kind))
	}
	t.cond = cond
	t.kind = kind
	s.yield(t, kind)
	t.cond = nil
}

func (s *Sched) yield(t *Thread, kind string) {
	if s.aborting {
		s.die(t)
	}
	next := s.pick(t, true, kind)
	if s.aborting { // divergence detected inside pick
		s.yield(t, kind)
		return
	}
	if next == t {
		return
	}
	if next == nil {
		// deadlock: nobody (including t) can run
		s.Abort("deadlock", s.describeBlocked())
	}
	s.cur = next
	next.wake <- struct{}{}
	<-t.wake
	if t.poisoned {
		runtime.Goexit()
	}
	if s.aborting && t.id == 0 {
		s.die(t)
	}
}

// Point is an unconditional scheduling point.
func (s *Sched) Point(kind string) { s.Wait(kind, nil) }

// Point is the package-level form used by shims: no-op without a scheduler.
func Point(kind string) {
	if s := cur; s != nil {
		s.Wait(kind, nil)
	}
}

// SleepPoint: the thread sleeps; it becomes runnable again once another thread
// has made a step, or when nothing else can run.
func (s *Sched) SleepPoint() {
	t := s.cur
	if t.poisoned {
		return
	}
	t.sleeping = true
	t.sleepAt = s.stepCount + 1
	s.Wait("sleep", nil)
	t.sleeping = false
}

// Drain lets every other thread run until all of them are finished or blocked.
// Only meaningful on thread 0 in deterministic (non-recording) mode.
func (s *Sched) Drain() {
	if s.isFree {
		s.freeWG.Wait()
		return
	}
	s.Wait("drain", func() bool {
		for _, t := range s.live {
			if t.id == 0 || t.done {
				continue
			}
			if t.sleeping || s.enabled(t) {
				return false
			}
		}
		return true
	})
}

// Freeze models "the process exits now" from a client thread: from this moment
// only thread 0 can run; Parallel returns and thread 0 is expected to call KillOthers.
func (s *Sched) Freeze() {
	if s.isFree {
		return
	}
	if s.cur.poisoned {
		return
	}
	s.frozen = true
	t := s.cur
	if t.id != 0 {
		// park forever: hand control to thread 0
		s.Wait("frozen", func() bool { return false })
	}
}

// Unfreeze re-enables scheduling of new threads after KillOthers.
func (s *Sched) Unfreeze() { s.frozen = false }

// Events returns a copy of the thread life log.
func (s *Sched) Events() []ThreadEvent {
	if s.isFree {
		return nil
	}
	return append([]ThreadEvent(nil), s.events...)
}

// Pending reports the number of other live threads.
func (s *Sched) Pending() int {
	n := 0
	for _, t := range s.live {
		if t.id != 0 && !t.done {
			n++
		}
	}
	return n
}

// Parallel runs fns as client threads under exploration (choice points are
// recorded and follow Opts.Prefix) and returns when every thread other than
// thread 0 has finished. Threads that were pending before the call take part.
func (s *Sched) Parallel(fns ...func()) {
	if s.isFree {
		var wg sync.WaitGroup
		for _, f := range fns {
			wg.Add(1)
			f := f
			go func() {
				defer wg.Done()
				f()
			}()
		}
		wg.Wait()
		s.freeWG.Wait()
		return
	}
	if s.cur.id != 0 {
		panic("vsched: Parallel not on thread 0")
	}
	for i, f := range fns {
		s.spawn(fmt.Sprintf("client%d", i), f, true)
	}
	s.recording = true
	s.Wait("join", func() bool {
		if s.frozen {
			return true
		}
		for _, t := range s.live {
			if t.id != 0 && !t.done {
				return false
			}
		}
		return true
	})
	s.recording = false
}

// ParallelClients is like Parallel but returns as soon as the client threads
// are done; background threads spawned by the code stay pending.
func (s *Sched) ParallelClients(fns ...func()) {
	var cl []*Thread
	for i, f := range fns {
		cl = append(cl, s.spawn(fmt.Sprintf("client%d", i), f, true))
	}
	s.recording = true
	s.Wait("join", func() bool {
		for _, t := range cl {
			if !t.done {
				return false
			}
		}
		return true
	})
	s.recording = false
}

// Fatal is called by the harness log hub for FATAL messages: the process dies.
func Fatal(msg string) {
	s := cur
	if s == nil {
		panic("FATAL: " + msg)
	}
	s.Abort("fatal", msg)
}

// ChanRecvInt / ChanSendInt stand for "<-ch" and "ch <- v" on a buffered chan int (the request limiter's token
// channel): under the scheduler they are blocking scheduling points whose enabledness is the channel's fill level.
func ChanRecvInt(ch chan int) int {
	s := cur
	if s == nil || s.isFree {
		return <-ch
	}
	if s.cur.poisoned {
		select {
		case v := <-ch:
			return v
		default:
			return 0
		}
	}
	s.Wait("chan-recv", func() bool { return len(ch) > 0 })
	return <-ch
}

func ChanSendInt(ch chan int, v int) {
	s := cur
	if s == nil || s.isFree {
		ch <- v
		return
	}
	if s.cur.poisoned {
		select {
		case ch <- v:
		default:
		}
		return
	}
	s.Wait("chan-send", func() bool { return len(ch) < cap(ch) })
	ch <- v
	s.Point("chan-sent") // a send wakes a receiver: the instant after it is a scheduling point too
}
