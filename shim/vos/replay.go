package vos

import (
	"fmt"
	"io"
	"os"
	"path/filepath"
	"sort"
	"strings"
)

// ReplayOnOS executes a recorded call trace against the real operating system
// under root and compares every per-call result summary with what memfs
// answered, then compares the final tree (names, kinds, sizes, content) with
// final. It is the conformance check of the memfs model.
func ReplayOnOS(trace []Call, final *FS, root string) (calls int, err error) {
	if err := os.MkdirAll(root, 0755); err != nil {
		return 0, err
	}
	defer os.RemoveAll(root)
	rp := func(p string) string {
		if p == "" {
			return ""
		}
		return filepath.Join(root, p)
	}
	handles := map[int]*os.File{}
	defer func() {
		for _, h := range handles {
			h.Close()
		}
	}()
	for i, c := range trace {
		var got string
		switch c.Op {
		case "open":
			f, e := os.OpenFile(rp(c.Path), c.Flag, 0644)
			if e == nil {
				handles[c.H] = f
			}
			got = errStr(e)
		case "close":
			got = errStr(handles[c.H].Close())
			delete(handles, c.H)
		case "read":
			b := make([]byte, c.N)
			n, e := handles[c.H].Read(b)
			got = fmt.Sprintf("%d %s %s", n, errStr(e), sum(b[:n]))
		case "readat":
			b := make([]byte, c.N)
			n, e := handles[c.H].ReadAt(b, c.Off)
			got = fmt.Sprintf("%d %s %s", n, errStr(e), sum(b[:n]))
		case "write":
			n, e := handles[c.H].Write(c.Data)
			if e != nil {
				got = "0 " + errStr(e)
			} else {
				got = fmt.Sprintf("%d ok", n)
			}
		case "writeat":
			n, e := handles[c.H].WriteAt(c.Data, c.Off)
			_ = e
			got = fmt.Sprintf("%d ok", n)
		case "seek":
			o, e := handles[c.H].Seek(c.Off, c.Whence)
			if e != nil {
				got = "0 " + errStr(e)
			} else {
				got = fmt.Sprintf("%d ok", o)
			}
		case "fstat":
			fi, e := handles[c.H].Stat()
			if e != nil {
				got = errStr(e)
			} else if fi.IsDir() {
				got = "dir ok"
			} else {
				got = fmt.Sprintf("%d %v ok", fi.Size(), fi.IsDir())
			}
		case "ftruncate":
			got = errStr(handles[c.H].Truncate(c.Off))
		case "stat":
			fi, e := os.Stat(rp(c.Path))
			switch {
			case e != nil:
				got = errStr(e)
			case fi.IsDir():
				got = "dir ok"
			default:
				got = fmt.Sprintf("%d ok", fi.Size())
			}
		case "rename":
			got = errStr(os.Rename(rp(c.Path), rp(c.Path2)))
		case "remove":
			got = errStr(os.Remove(rp(c.Path)))
		case "rawwrite":
			os.MkdirAll(filepath.Dir(rp(c.Path)), 0755)
			got = errStr(os.WriteFile(rp(c.Path), c.Data, 0644))
		case "removeall":
			os.RemoveAll(rp(c.Path))
			got = "ok"
		case "truncate":
			got = errStr(os.Truncate(rp(c.Path), c.Off))
		case "mkdir":
			got = errStr(os.Mkdir(rp(c.Path), 0755))
		case "mkdirall":
			got = errStr(os.MkdirAll(rp(c.Path), 0755))
		case "readfile":
			b, e := os.ReadFile(rp(c.Path))
			if e != nil {
				got = errStr(e)
			} else {
				got = fmt.Sprintf("%d %s ok", len(b), sum(b))
			}
		case "glob":
			ms, _ := filepath.Glob(rp(c.Path))
			for j := range ms {
				ms[j] = strings.TrimPrefix(ms[j], root)
			}
			got = fmt.Sprintf("%d %s", len(ms), sum([]byte(strings.Join(ms, "\n"))))
		default:
			return calls, fmt.Errorf("unknown traced op %q", c.Op)
		}
		calls++
		if got != c.Res {
			return calls, fmt.Errorf("call %d %s %s %s: memfs answered %q, the OS %q", i, c.Op, c.Path, c.Path2, c.Res, got)
		}
	}
	// final tree
	want := map[string]string{}
	for p, n := range final.nodes {
		if p == "/" {
			continue
		}
		if n.dir {
			want[p] = "dir"
		} else {
			want[p] = fmt.Sprintf("%d %s", len(n.data), sum(n.data))
		}
	}
	have := map[string]string{}
	filepath.Walk(root, func(p string, fi os.FileInfo, e error) error {
		if e != nil || p == root {
			return nil
		}
		rel := strings.TrimPrefix(p, root)
		if fi.IsDir() {
			have[rel] = "dir"
		} else {
			f, _ := os.Open(p)
			b, _ := io.ReadAll(f)
			f.Close()
			have[rel] = fmt.Sprintf("%d %s", len(b), sum(b))
		}
		return nil
	})
	var diffs []string
	for p, w := range want {
		if have[p] != w {
			diffs = append(diffs, fmt.Sprintf("%s: memfs %q os %q", p, w, have[p]))
		}
	}
	for p, h := range have {
		if _, ok := want[p]; !ok {
			diffs = append(diffs, fmt.Sprintf("%s: only on the OS (%s)", p, h))
		}
	}
	if len(diffs) > 0 {
		sort.Strings(diffs)
		return calls, fmt.Errorf("final tree differs: %s", strings.Join(diffs[:minInt(len(diffs), 5)], "; "))
	}
	return calls, nil
}

func minInt(a, b int) int {
	if a < b {
		return a
	}
	return b
}
