// Package vos replaces the file-system calls of the rewritten code. With no
// memfs attached every call goes to the real OS. With one attached
// (Attach), all calls operate on an in-memory inode file system that logs every
// mutating call, so that any prefix of the log (a SIGKILL crash state) can be
// materialised, and so that a recorded call trace can be replayed against the
// real OS (conformance check of the memfs model).
package vos

import (
	"crypto/sha256"
	"encoding/hex"
	"fmt"
	"io"
	"io/fs"
	"os"
	"path/filepath"
	"sort"
	"strings"
	"syscall"
	"time"

	"github.com/douban/gobeansdb/vshim/vsched"
)

type inode struct {
	ino  int
	data []byte
	dir  bool
}

// Mut is one logged mutation.
type Mut struct {
	Seq   int
	Op    string // create, write, truncate, remove, rename, mkdir, removeall
	Path  string
	Path2 string
	Ino   int
	Off   int64
	Data  []byte
	Size  int64
	Tid   int
}

// Call is one traced API call with a summary of its result (for OS replay).
type Call struct {
	Op     string
	Path   string
	Path2  string
	H      int // handle id
	Flag   int
	Off    int64
	N      int
	Whence int
	Data   []byte
	Res    string
}

type FS struct {
	nodes   map[string]*inode
	nextIno int
	Log     []Mut
	Trace   []Call
	Tracing bool
	nextH   int
	NoPoint bool // suppress scheduling points (harness-internal access)
}

var cur *FS

func Attach(f *FS) { cur = f }
func Detach()      { cur = nil }
func Current() *FS { return cur }
func New() *FS     { return &FS{nodes: map[string]*inode{"/": {dir: true}}, nextIno: 1} }
func clean(p string) string {
	if p == "" {
		return "."
	}
	return filepath.Clean(p)
}

// ---------------------------------------------------------------- snapshots

func (f *FS) Clone() *FS {
	g := &FS{nodes: make(map[string]*inode, len(f.nodes)), nextIno: f.nextIno}
	for p, n := range f.nodes {
		g.nodes[p] = &inode{ino: n.ino, dir: n.dir, data: append([]byte(nil), n.data...)}
	}
	return g
}

// Paths returns all file paths (not directories), sorted.
func (f *FS) Paths() []string {
	var ps []string
	for p, n := range f.nodes {
		if !n.dir {
			ps = append(ps, p)
		}
	}
	sort.Strings(ps)
	return ps
}

func (f *FS) Dirs() []string {
	var ps []string
	for p, n := range f.nodes {
		if n.dir {
			ps = append(ps, p)
		}
	}
	sort.Strings(ps)
	return ps
}

func (f *FS) ReadFileRaw(p string) ([]byte, bool) {
	n, ok := f.nodes[clean(p)]
	if !ok || n.dir {
		return nil, false
	}
	return n.data, true
}

func (f *FS) WriteFileRaw(p string, data []byte) {
	p = clean(p)
	f.mkdirAllRaw(filepath.Dir(p))
	f.nodes[p] = &inode{ino: f.nextIno, data: append([]byte(nil), data...)}
	f.nextIno++
	if f.Tracing {
		f.trace(Call{Op: "rawwrite", Path: p, Data: append([]byte(nil), data...), Res: "ok"})
	}
}

// RemoveRaw removes a path on behalf of the harness (e.g. deleting index files between two
// processes); it is traced so that the OS replay sees the same thing.
func (f *FS) RemoveRaw(p string) {
	delete(f.nodes, clean(p))
	if f.Tracing {
		f.trace(Call{Op: "remove", Path: clean(p), Res: "ok"})
	}
}

func (f *FS) mkdirAllRaw(p string) {
	p = clean(p)
	for p != "/" && p != "." {
		if _, ok := f.nodes[p]; !ok {
			f.nodes[p] = &inode{dir: true}
		}
		p = filepath.Dir(p)
	}
}

// Hash is a content hash of the whole tree (paths, kinds, data).
func (f *FS) Hash() string {
	h := sha256.New()
	ps := make([]string, 0, len(f.nodes))
	for p := range f.nodes {
		ps = append(ps, p)
	}
	sort.Strings(ps)
	for _, p := range ps {
		n := f.nodes[p]
		fmt.Fprintf(h, "%s|%v|%d|", p, n.dir, len(n.data))
		h.Write(n.data)
	}
	return hex.EncodeToString(h.Sum(nil)[:12])
}

// Apply applies mutation m to f. If torn >= 0 and m is a write, only the first
// torn bytes are applied.
func (f *FS) Apply(m *Mut, torn int) {
	switch m.Op {
	case "create":
		f.nodes[m.Path] = &inode{ino: m.Ino}
		if m.Ino >= f.nextIno {
			f.nextIno = m.Ino + 1
		}
	case "write":
		n := f.byIno(m.Ino)
		if n == nil {
			return // written to an unlinked file: invisible after a crash
		}
		data := m.Data
		if torn >= 0 && torn < len(data) {
			data = data[:torn]
		}
		end := m.Off + int64(len(data))
		if int64(len(n.data)) < end {
			n.data = append(n.data, make([]byte, end-int64(len(n.data)))...)
		}
		copy(n.data[m.Off:], data)
	case "truncate":
		n := f.byIno(m.Ino)
		if n == nil {
			return
		}
		if int64(len(n.data)) > m.Size {
			n.data = n.data[:m.Size]
		} else {
			n.data = append(n.data, make([]byte, m.Size-int64(len(n.data)))...)
		}
	case "remove":
		delete(f.nodes, m.Path)
	case "rename":
		if n, ok := f.nodes[m.Path]; ok {
			delete(f.nodes, m.Path)
			f.nodes[m.Path2] = n
		}
	case "mkdir":
		f.mkdirAllRaw(m.Path)
	case "removeall":
		pre := m.Path + "/"
		for p := range f.nodes {
			if p == m.Path || strings.HasPrefix(p, pre) {
				delete(f.nodes, p)
			}
		}
	}
}

func (f *FS) byIno(ino int) *inode {
	for _, n := range f.nodes {
		if n.ino == ino && !n.dir {
			return n
		}
	}
	return nil
}

// ---------------------------------------------------------------- plumbing

func point(kind string) {
	if cur != nil && cur.NoPoint {
		return
	}
	vsched.Point(kind)
}

func poisoned() bool {
	s := vsched.Cur()
	return s != nil && s.Poisoned()
}

func tid() int {
	if s := vsched.Cur(); s != nil {
		return s.CurID()
	}
	return 0
}

func (f *FS) logMut(m Mut) {
	m.Seq = len(f.Log)
	m.Tid = tid()
	f.Log = append(f.Log, m)
}

func (f *FS) trace(c Call) {
	if f.Tracing {
		f.Trace = append(f.Trace, c)
	}
}

func errStr(err error) string {
	if err == nil {
		return "ok"
	}
	if err == io.EOF {
		return "EOF"
	}
	if pe, ok := err.(*os.PathError); ok {
		return "E:" + pe.Err.Error()
	}
	if le, ok := err.(*os.LinkError); ok {
		return "E:" + le.Err.Error()
	}
	return "E:" + err.Error()
}

func pathErr(op, p string, e error) error { return &os.PathError{Op: op, Path: p, Err: e} }

func (f *FS) parentOK(p string) bool {
	d := filepath.Dir(p)
	n, ok := f.nodes[d]
	if d == "." {
		return true
	}
	return ok && n.dir
}

// ---------------------------------------------------------------- File

type File struct {
	real    *os.File
	fs      *FS
	n       *inode
	name    string
	off     int64
	flag    int
	closed  bool
	h       int
	dirEnts []os.FileInfo
}

type fileInfo struct {
	name string
	size int64
	dir  bool
}

func (fi *fileInfo) Name() string { return fi.name }
func (fi *fileInfo) Size() int64  { return fi.size }
func (fi *fileInfo) Mode() fs.FileMode {
	if fi.dir {
		return fs.ModeDir | 0755
	}
	return 0644
}
func (fi *fileInfo) ModTime() time.Time { return time.Unix(0, 0) }
func (fi *fileInfo) IsDir() bool        { return fi.dir }
func (fi *fileInfo) Sys() interface{}   { return nil }

func Open(name string) (*File, error) { return OpenFile(name, os.O_RDONLY, 0) }

func Create(name string) (*File, error) {
	return OpenFile(name, os.O_RDWR|os.O_CREATE|os.O_TRUNC, 0666)
}

func OpenFile(name string, flag int, perm os.FileMode) (*File, error) {
	f := cur
	if f == nil {
		r, err := os.OpenFile(name, flag, perm)
		if err != nil {
			return nil, err
		}
		return &File{real: r, name: name}, nil
	}
	if poisoned() {
		return nil, pathErr("open", name, os.ErrClosed)
	}
	point("fs:open")
	p := clean(name)
	n, ok := f.nodes[p]
	var err error
	switch {
	case !ok && flag&os.O_CREATE == 0:
		err = pathErr("open", name, syscall.ENOENT)
	case !ok && !f.parentOK(p):
		err = pathErr("open", name, syscall.ENOENT)
	case ok && flag&os.O_CREATE != 0 && flag&os.O_EXCL != 0:
		err = pathErr("open", name, syscall.EEXIST)
	case ok && n.dir && flag&(os.O_WRONLY|os.O_RDWR) != 0:
		err = pathErr("open", name, syscall.EISDIR)
	}
	if err != nil {
		if f.Tracing {
			f.trace(Call{Op: "open", Path: p, Flag: flag, Res: errStr(err)})
		}
		return nil, err
	}
	if !ok {
		n = &inode{ino: f.nextIno}
		f.nextIno++
		f.nodes[p] = n
		f.logMut(Mut{Op: "create", Path: p, Ino: n.ino})
	} else if flag&os.O_TRUNC != 0 && !n.dir && flag&(os.O_WRONLY|os.O_RDWR) != 0 {
		if len(n.data) > 0 {
			n.data = n.data[:0:0]
			f.logMut(Mut{Op: "truncate", Path: p, Ino: n.ino, Size: 0})
		}
	}
	f.nextH++
	fl := &File{fs: f, n: n, name: name, flag: flag, h: f.nextH}
	if f.Tracing {
		f.trace(Call{Op: "open", Path: p, Flag: flag, H: fl.h, Res: "ok"})
	}
	return fl, nil
}

func (fl *File) Name() string { return fl.name }

func (fl *File) Fd() uintptr {
	if fl.real != nil {
		return fl.real.Fd()
	}
	return ^uintptr(0)
}

func (fl *File) Close() error {
	if fl.real != nil {
		return fl.real.Close()
	}
	if fl.closed {
		return pathErr("close", fl.name, os.ErrClosed)
	}
	fl.closed = true
	if fl.fs.Tracing {
		fl.fs.trace(Call{Op: "close", H: fl.h, Res: "ok"})
	}
	return nil
}

func (fl *File) Sync() error {
	if fl.real != nil {
		return fl.real.Sync()
	}
	return nil
}

func (fl *File) readable() bool { return fl.flag&os.O_WRONLY == 0 }
func (fl *File) writable() bool { return fl.flag&(os.O_WRONLY|os.O_RDWR) != 0 }

func (fl *File) Read(b []byte) (int, error) {
	if fl.real != nil {
		return fl.real.Read(b)
	}
	if fl.closed || poisoned() {
		return 0, pathErr("read", fl.name, os.ErrClosed)
	}
	point("fs:read")
	n, err := fl.readAt(b, fl.off, false)
	fl.off += int64(n)
	if fl.fs.Tracing {
		fl.fs.trace(Call{Op: "read", H: fl.h, N: len(b), Res: fmt.Sprintf("%d %s %s", n, errStr(err), sum(b[:n]))})
	}
	return n, err
}

func (fl *File) readAt(b []byte, off int64, full bool) (int, error) {
	if !fl.readable() {
		return 0, pathErr("read", fl.name, syscall.EBADF)
	}
	if fl.n.dir {
		return 0, pathErr("read", fl.name, syscall.EISDIR)
	}
	if len(b) == 0 {
		return 0, nil
	}
	if off >= int64(len(fl.n.data)) {
		return 0, io.EOF
	}
	n := copy(b, fl.n.data[off:])
	if full && n < len(b) {
		return n, io.EOF
	}
	return n, nil
}

func (fl *File) ReadAt(b []byte, off int64) (int, error) {
	if fl.real != nil {
		return fl.real.ReadAt(b, off)
	}
	if fl.closed || poisoned() {
		return 0, pathErr("read", fl.name, os.ErrClosed)
	}
	point("fs:readat")
	n, err := fl.readAt(b, off, true)
	if fl.fs.Tracing {
		fl.fs.trace(Call{Op: "readat", H: fl.h, N: len(b), Off: off, Res: fmt.Sprintf("%d %s %s", n, errStr(err), sum(b[:n]))})
	}
	return n, err
}

func sum(b []byte) string {
	h := sha256.Sum256(b)
	return hex.EncodeToString(h[:6])
}

func (fl *File) Write(b []byte) (int, error) {
	if fl.real != nil {
		return fl.real.Write(b)
	}
	if fl.closed || poisoned() {
		return 0, pathErr("write", fl.name, os.ErrClosed)
	}
	point("fs:write")
	if !fl.writable() {
		err := pathErr("write", fl.name, syscall.EBADF)
		if fl.fs.Tracing {
			fl.fs.trace(Call{Op: "write", H: fl.h, Data: append([]byte(nil), b...), Res: "0 " + errStr(err)})
		}
		return 0, err
	}
	off := fl.off
	if fl.flag&os.O_APPEND != 0 {
		off = int64(len(fl.n.data))
	}
	fl.writeAt(b, off)
	fl.off = off + int64(len(b))
	if fl.fs.Tracing {
		fl.fs.trace(Call{Op: "write", H: fl.h, Data: append([]byte(nil), b...), Res: fmt.Sprintf("%d ok", len(b))})
	}
	return len(b), nil
}

func (fl *File) writeAt(b []byte, off int64) {
	if len(b) == 0 {
		return
	}
	n := fl.n
	end := off + int64(len(b))
	if int64(len(n.data)) < end {
		n.data = append(n.data, make([]byte, end-int64(len(n.data)))...)
	}
	copy(n.data[off:], b)
	fl.fs.logMut(Mut{Op: "write", Path: fl.name, Ino: n.ino, Off: off, Data: append([]byte(nil), b...)})
}

func (fl *File) WriteString(s string) (int, error) { return fl.Write([]byte(s)) }

func (fl *File) WriteAt(b []byte, off int64) (int, error) {
	if fl.real != nil {
		return fl.real.WriteAt(b, off)
	}
	if fl.closed || poisoned() {
		return 0, pathErr("write", fl.name, os.ErrClosed)
	}
	point("fs:write")
	if !fl.writable() {
		return 0, pathErr("write", fl.name, syscall.EBADF)
	}
	fl.writeAt(b, off)
	if fl.fs.Tracing {
		fl.fs.trace(Call{Op: "writeat", H: fl.h, Off: off, Data: append([]byte(nil), b...), Res: fmt.Sprintf("%d ok", len(b))})
	}
	return len(b), nil
}

func (fl *File) Seek(offset int64, whence int) (int64, error) {
	if fl.real != nil {
		return fl.real.Seek(offset, whence)
	}
	if fl.closed || poisoned() {
		return 0, pathErr("seek", fl.name, os.ErrClosed)
	}
	var base int64
	switch whence {
	case io.SeekStart:
	case io.SeekCurrent:
		base = fl.off
	case io.SeekEnd:
		point("fs:seekend")
		base = int64(len(fl.n.data))
	}
	if base+offset < 0 {
		err := pathErr("seek", fl.name, syscall.EINVAL)
		if fl.fs.Tracing {
			fl.fs.trace(Call{Op: "seek", H: fl.h, Off: offset, Whence: whence, Res: "0 " + errStr(err)})
		}
		return 0, err
	}
	fl.off = base + offset
	if fl.fs.Tracing {
		fl.fs.trace(Call{Op: "seek", H: fl.h, Off: offset, Whence: whence, Res: fmt.Sprintf("%d ok", fl.off)})
	}
	return fl.off, nil
}

func (fl *File) Stat() (os.FileInfo, error) {
	if fl.real != nil {
		return fl.real.Stat()
	}
	if fl.closed || poisoned() {
		return nil, pathErr("stat", fl.name, os.ErrClosed)
	}
	point("fs:fstat")
	fi := &fileInfo{name: filepath.Base(fl.name), size: int64(len(fl.n.data)), dir: fl.n.dir}
	if fl.fs.Tracing {
		if fi.dir {
			fl.fs.trace(Call{Op: "fstat", H: fl.h, Res: "dir ok"})
		} else {
			fl.fs.trace(Call{Op: "fstat", H: fl.h, Res: fmt.Sprintf("%d %v ok", fi.size, fi.dir)})
		}
	}
	return fi, nil
}

func (fl *File) Truncate(size int64) error {
	if fl.real != nil {
		return fl.real.Truncate(size)
	}
	if fl.closed || poisoned() {
		return pathErr("truncate", fl.name, os.ErrClosed)
	}
	point("fs:truncate")
	fl.fs.truncInode(fl.n, fl.name, size)
	if fl.fs.Tracing {
		fl.fs.trace(Call{Op: "ftruncate", H: fl.h, Off: size, Res: "ok"})
	}
	return nil
}

func (fl *File) Readdir(n int) ([]os.FileInfo, error) {
	if fl.real != nil {
		return fl.real.Readdir(n)
	}
	if fl.closed || poisoned() {
		return nil, pathErr("readdir", fl.name, os.ErrClosed)
	}
	if !fl.n.dir {
		return nil, pathErr("readdirent", fl.name, syscall.ENOTDIR)
	}
	point("fs:readdir")
	dir := clean(fl.name)
	var out []os.FileInfo
	for p, nd := range fl.fs.nodes {
		if p != dir && filepath.Dir(p) == dir {
			out = append(out, &fileInfo{name: filepath.Base(p), size: int64(len(nd.data)), dir: nd.dir})
		}
	}
	sort.Slice(out, func(i, j int) bool { return out[i].Name() < out[j].Name() })
	return out, nil
}

// ---------------------------------------------------------------- path ops

func Stat(name string) (os.FileInfo, error) {
	f := cur
	if f == nil {
		return os.Stat(name)
	}
	if poisoned() {
		return nil, pathErr("stat", name, os.ErrClosed)
	}
	point("fs:stat")
	p := clean(name)
	n, ok := f.nodes[p]
	if !ok {
		err := pathErr("stat", name, syscall.ENOENT)
		if f.Tracing {
			f.trace(Call{Op: "stat", Path: p, Res: errStr(err)})
		}
		return nil, err
	}
	fi := &fileInfo{name: filepath.Base(p), size: int64(len(n.data)), dir: n.dir}
	if f.Tracing {
		if n.dir {
			if f.Tracing {
				f.trace(Call{Op: "stat", Path: p, Res: "dir ok"})
			}
		} else {
			if f.Tracing {
				f.trace(Call{Op: "stat", Path: p, Res: fmt.Sprintf("%d ok", fi.size)})
			}
		}
	}
	return fi, nil
}

func Rename(oldp, newp string) error {
	f := cur
	if f == nil {
		return os.Rename(oldp, newp)
	}
	if poisoned() {
		return &os.LinkError{Op: "rename", Old: oldp, New: newp, Err: os.ErrClosed}
	}
	point("fs:rename")
	a, b := clean(oldp), clean(newp)
	n, ok := f.nodes[a]
	var err error
	if !ok || !f.parentOK(b) {
		err = &os.LinkError{Op: "rename", Old: oldp, New: newp, Err: syscall.ENOENT}
	} else if t, ok2 := f.nodes[b]; ok2 && t.dir != n.dir {
		if t.dir {
			err = &os.LinkError{Op: "rename", Old: oldp, New: newp, Err: syscall.EISDIR}
		} else {
			err = &os.LinkError{Op: "rename", Old: oldp, New: newp, Err: syscall.ENOTDIR}
		}
	}
	if err == nil && a != b {
		delete(f.nodes, a)
		f.nodes[b] = n
		f.logMut(Mut{Op: "rename", Path: a, Path2: b, Ino: n.ino})
	}
	if f.Tracing {
		f.trace(Call{Op: "rename", Path: a, Path2: b, Res: errStr(err)})
	}
	return err
}

func Remove(name string) error {
	f := cur
	if f == nil {
		return os.Remove(name)
	}
	if poisoned() {
		return pathErr("remove", name, os.ErrClosed)
	}
	point("fs:remove")
	p := clean(name)
	n, ok := f.nodes[p]
	var err error
	if !ok {
		err = pathErr("remove", name, syscall.ENOENT)
	} else if n.dir {
		pre := p + "/"
		for q := range f.nodes {
			if strings.HasPrefix(q, pre) {
				err = pathErr("remove", name, syscall.ENOTEMPTY)
				break
			}
		}
	}
	if err == nil {
		delete(f.nodes, p)
		f.logMut(Mut{Op: "remove", Path: p, Ino: n.ino})
	}
	if f.Tracing {
		f.trace(Call{Op: "remove", Path: p, Res: errStr(err)})
	}
	return err
}

func RemoveAll(name string) error {
	f := cur
	if f == nil {
		return os.RemoveAll(name)
	}
	if poisoned() {
		return pathErr("removeall", name, os.ErrClosed)
	}
	point("fs:removeall")
	p := clean(name)
	pre := p + "/"
	found := false
	for q := range f.nodes {
		if q == p || strings.HasPrefix(q, pre) {
			delete(f.nodes, q)
			found = true
		}
	}
	if found {
		f.logMut(Mut{Op: "removeall", Path: p})
	}
	if f.Tracing {
		f.trace(Call{Op: "removeall", Path: p, Res: "ok"})
	}
	return nil
}

func (f *FS) truncInode(n *inode, name string, size int64) {
	if int64(len(n.data)) == size {
		return
	}
	if int64(len(n.data)) > size {
		n.data = n.data[:size]
	} else {
		n.data = append(n.data, make([]byte, size-int64(len(n.data)))...)
	}
	f.logMut(Mut{Op: "truncate", Path: clean(name), Ino: n.ino, Size: size})
}

func Truncate(name string, size int64) error {
	f := cur
	if f == nil {
		return os.Truncate(name, size)
	}
	if poisoned() {
		return pathErr("truncate", name, os.ErrClosed)
	}
	point("fs:truncate")
	p := clean(name)
	n, ok := f.nodes[p]
	var err error
	if !ok {
		err = pathErr("truncate", name, syscall.ENOENT)
	} else if n.dir {
		err = pathErr("truncate", name, syscall.EISDIR)
	} else if size < 0 {
		err = pathErr("truncate", name, syscall.EINVAL)
	} else {
		f.truncInode(n, p, size)
	}
	if f.Tracing {
		f.trace(Call{Op: "truncate", Path: p, Off: size, Res: errStr(err)})
	}
	return err
}

func Mkdir(name string, perm os.FileMode) error {
	f := cur
	if f == nil {
		return os.Mkdir(name, perm)
	}
	if poisoned() {
		return pathErr("mkdir", name, os.ErrClosed)
	}
	point("fs:mkdir")
	p := clean(name)
	var err error
	if _, ok := f.nodes[p]; ok {
		err = pathErr("mkdir", name, syscall.EEXIST)
	} else if !f.parentOK(p) {
		err = pathErr("mkdir", name, syscall.ENOENT)
	} else {
		f.nodes[p] = &inode{dir: true}
		f.logMut(Mut{Op: "mkdir", Path: p})
	}
	if f.Tracing {
		f.trace(Call{Op: "mkdir", Path: p, Res: errStr(err)})
	}
	return err
}

func MkdirAll(name string, perm os.FileMode) error {
	f := cur
	if f == nil {
		return os.MkdirAll(name, perm)
	}
	if poisoned() {
		return pathErr("mkdir", name, os.ErrClosed)
	}
	point("fs:mkdirall")
	p := clean(name)
	var err error
	// any existing non-directory on the way is an error
	for q := p; q != "/" && q != "."; q = filepath.Dir(q) {
		if n, ok := f.nodes[q]; ok && !n.dir {
			err = pathErr("mkdir", q, syscall.ENOTDIR)
		}
	}
	if err == nil {
		if n, ok := f.nodes[p]; !ok || !n.dir {
			f.mkdirAllRaw(p)
			f.logMut(Mut{Op: "mkdir", Path: p})
		}
	}
	if f.Tracing {
		f.trace(Call{Op: "mkdirall", Path: p, Res: errStr(err)})
	}
	return err
}

func ReadFile(name string) ([]byte, error) {
	f := cur
	if f == nil {
		return os.ReadFile(name)
	}
	if poisoned() {
		return nil, pathErr("open", name, os.ErrClosed)
	}
	point("fs:readfile")
	p := clean(name)
	n, ok := f.nodes[p]
	if !ok {
		err := pathErr("open", name, syscall.ENOENT)
		if f.Tracing {
			f.trace(Call{Op: "readfile", Path: p, Res: errStr(err)})
		}
		return nil, err
	}
	if n.dir {
		err := pathErr("read", name, syscall.EISDIR)
		if f.Tracing {
			f.trace(Call{Op: "readfile", Path: p, Res: errStr(err)})
		}
		return nil, err
	}
	out := append([]byte{}, n.data...)
	if f.Tracing {
		f.trace(Call{Op: "readfile", Path: p, Res: fmt.Sprintf("%d %s ok", len(out), sum(out))})
	}
	return out, nil
}

// WriteFile mimics ioutil.WriteFile: open(O_WRONLY|O_CREATE|O_TRUNC), write, close.
// The truncation and the write are two separate mutations (as on a real OS).
func WriteFile(name string, data []byte, perm os.FileMode) error {
	f := cur
	if f == nil {
		return os.WriteFile(name, data, perm)
	}
	fl, err := OpenFile(name, os.O_WRONLY|os.O_CREATE|os.O_TRUNC, perm)
	if err != nil {
		return err
	}
	_, err = fl.Write(data)
	if e := fl.Close(); err == nil {
		err = e
	}
	return err
}

// Glob mimics filepath.Glob for patterns whose directory part has no
// wildcards (all patterns in gobeansdb are of that form).
func Glob(pattern string) ([]string, error) {
	f := cur
	if f == nil {
		return filepath.Glob(pattern)
	}
	if poisoned() {
		return nil, nil
	}
	point("fs:glob")
	dir, base := filepath.Split(pattern)
	dirc := clean(dir)
	if strings.ContainsAny(dir, "*?[") {
		panic("vos.Glob: wildcard in directory part not supported: " + pattern)
	}
	var out []string
	if !strings.ContainsAny(base, "*?[\\") {
		if _, ok := f.nodes[clean(pattern)]; ok {
			out = []string{pattern}
		}
	} else if d, ok := f.nodes[dirc]; ok && d.dir {
		pre := dirc + "/"
		if dirc == "/" {
			pre = "/"
		}
		for p := range f.nodes {
			if len(p) <= len(pre) || !strings.HasPrefix(p, pre) || strings.IndexByte(p[len(pre):], '/') >= 0 {
				if !(dirc == "." && strings.IndexByte(p, '/') < 0) {
					continue
				}
			}
			name := p
			if dirc != "." {
				name = p[len(pre):]
			}
			m, err := filepath.Match(base, name)
			if err != nil {
				return nil, err
			}
			if m {
				if dir == "" {
					out = append(out, name)
				} else {
					out = append(out, pre+name)
				}
			}
		}
		sort.Strings(out)
	}
	if f.Tracing {
		f.trace(Call{Op: "glob", Path: pattern, Res: fmt.Sprintf("%d %s", len(out), sum([]byte(strings.Join(out, "\n"))))})
	}
	return out, nil
}

// ---------------------------------------------------------------- crash states

// TornCuts returns the byte counts at which a write of the given mutation is
// considered torn: every 256-byte boundary relative to the file offset, a few
// unaligned cuts, and (for small in-place files) every byte.
func TornCuts(m *Mut) []int {
	L := len(m.Data)
	if m.Op != "write" || L <= 1 {
		return nil
	}
	set := map[int]bool{}
	add := func(c int) {
		if c > 0 && c < L {
			set[c] = true
		}
	}
	small := strings.HasSuffix(m.Path, ".yaml") || strings.HasSuffix(m.Path, ".txt")
	if small || L <= 64 {
		for c := 1; c < L; c++ {
			add(c)
		}
	} else {
		first := int((256 - m.Off%256) % 256)
		for c := first; c < L; c += 256 {
			add(c)
		}
		for _, c := range []int{1, 23, 24, 25, 26, L - 1, L - 2, 255, 257} {
			add(c)
		}
	}
	out := make([]int, 0, len(set))
	for c := range set {
		out = append(out, c)
	}
	sort.Ints(out)
	return out
}

// CrashStates materialises, on top of base (not modified), every SIGKILL
// crash state of the mutation log: S_k = first k mutations applied (k=0..n),
// and for every write mutation its torn variants. visit returns false to stop.
// The state handed to visit is owned by the callee (a private clone).
func CrashStates(base *FS, log []Mut, visit func(k int, cut int, st *FS) bool) {
	st := base.Clone()
	for k := 0; k <= len(log); k++ {
		if !visit(k, -1, st.Clone()) {
			return
		}
		if k == len(log) {
			return
		}
		m := &log[k]
		for _, c := range TornCuts(m) {
			t := st.Clone()
			t.Apply(m, c)
			if !visit(k, c, t) {
				return
			}
		}
		st.Apply(m, -1)
	}
}

// CrashStatesSkip is CrashStates with a cheap pre-filter: skip(k, cut, prefixHash) is asked before a state is
// materialised; prefixHash identifies the sequence of mutations applied (a rolling hash over the log prefix and the
// torn cut), so that logs sharing a prefix (schedules, histories) do not pay for the same states again.
func CrashStatesSkip(base *FS, log []Mut, skip func(k, cut int, prefixHash uint64) bool, visit func(k int, cut int, st *FS) bool) {
	st := base.Clone()
	h := uint64(1469598103934665603)
	mix := func(h uint64, b []byte) uint64 {
		for _, c := range b {
			h ^= uint64(c)
			h *= 1099511628211
		}
		return h
	}
	for k := 0; k <= len(log); k++ {
		if !skip(k, -1, h) {
			if !visit(k, -1, st.Clone()) {
				return
			}
		}
		if k == len(log) {
			return
		}
		m := &log[k]
		for _, c := range TornCuts(m) {
			hc := mix(h, []byte(fmt.Sprintf("torn%d", c)))
			hc = mix(hc, []byte(m.Op+m.Path))
			hc = mix(hc, m.Data[:c])
			hc = mix(hc, []byte(fmt.Sprint(m.Off)))
			if skip(k, c, hc) {
				continue
			}
			t := st.Clone()
			t.Apply(m, c)
			if !visit(k, c, t) {
				return
			}
		}
		st.Apply(m, -1)
		h = mix(h, []byte(fmt.Sprintf("%s|%s|%s|%d|%d|%d|", m.Op, m.Path, m.Path2, m.Ino, m.Off, m.Size)))
		h = mix(h, m.Data)
	}
}

// StartLog clears the mutation log (subsequent mutations are logged from index 0).
func (f *FS) StartLog() { f.Log = nil }
