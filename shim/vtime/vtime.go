// Package vtime replaces time.Now/Since/Sleep in the rewritten code by a
// virtual clock owned by the harness. Without Enable() it is pass-through.
package vtime

import (
	"time"

	"github.com/douban/gobeansdb/vshim/vsched"
)

var (
	enabled bool
	now     time.Time
)

// Base is the instant the virtual clock starts at.
var Base = time.Unix(1600000000, 0)

func Enable()  { enabled = true; now = Base }
func Disable() { enabled = false }
func Reset()   { now = Base }

func Set(t time.Time)         { now = t }
func Advance(d time.Duration) { now = now.Add(d) }

func Now() time.Time {
	if !enabled {
		return time.Now()
	}
	return now
}

func Since(t time.Time) time.Duration {
	if !enabled {
		return time.Since(t)
	}
	return now.Sub(t)
}

func Sleep(d time.Duration) {
	if !enabled {
		time.Sleep(d)
		return
	}
	if d > 0 {
		now = now.Add(d)
	}
	if s := vsched.Cur(); s != nil {
		s.SleepPoint()
	}
}

func Noop() {}
