//go:build verif

package memcache

import (
	"bufio"
	"io"

	"github.com/douban/gobeansdb/config"
)

// VerifNewConn builds a ServerConn on an arbitrary byte stream.
func VerifNewConn(rwc io.ReadWriteCloser) *ServerConn {
	c := new(ServerConn)
	c.RemoteAddr = "verif"
	c.rwc = rwc
	c.rbuf = bufio.NewReader(rwc)
	c.wbuf = bufio.NewWriter(rwc)
	c.req = new(Request)
	return c
}

func (c *ServerConn) VerifClosing() bool { return c.closeAfterReply }
func (c *ServerConn) VerifBuffered() int { return c.rbuf.Buffered() }

func VerifResetTokens() {
	n := config.MCConf.MaxReq
	if n == 0 {
		n = 16
	}
	RL = NewReqLimiter(n)
}

func VerifTokensFree() (free, capacity int) { return len(RL.Chan), cap(RL.Chan) }
