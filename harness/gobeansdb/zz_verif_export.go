//go:build verif

package gobeansdb

import (
	mc "github.com/douban/gobeansdb/memcache"
	"github.com/douban/gobeansdb/store"
)

// VerifClient returns the real StorageClient on a given HStore.
func VerifClient(h *store.HStore) mc.StorageClient { return &StorageClient{h} }
