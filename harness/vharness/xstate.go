//go:build verif

package vharness

import (
	"fmt"
	"strings"

	"github.com/douban/gobeansdb/store"
	"github.com/douban/gobeansdb/vshim/vsched"
)

// XSpec describes one explicit-state exploration over operation sequences.
type XSpec struct {
	Property string
	Name     string // configuration name
	Cfg      *store.VerifCfg
	Alphabet []Op
	Depth    int
	Keys     []string
	// Exec runs a whole history on a fresh machine and returns the first
	// mismatch (nil if the implementation agrees with the model everywhere),
	// plus a canonical dump of the final state (may be empty).
	Exec func(x *XSpec, s *vsched.Sched, hist []Op, wantDump bool) (*Mismatch, string)
	// DeadEnd is set by Exec/ExecNode implementations through HistOutcome.Dead (see SetDead)
	// Prefix is executed before every history (a non-initial start state); it is not counted in Depth.
	Prefix []Op
	// ExecNode, if set, replaces the default "one scheduler run around Exec".
	ExecNode func(x *XSpec, hist []Op, wantDump bool) HistOutcome
	// Prune, if set, says that op may not follow hist (symmetry / redundancy).
	Prune func(hist []Op, op Op) bool
}

// HistOutcome is the result of running one history under the scheduler.
type HistOutcome struct {
	Next    []Op // dynamically enabled letters offered in addition to the static alphabet
	Dead    bool // the last letter had no effect by construction (e.g. refused GC request): do not extend
	MM      *Mismatch
	Dump    string
	Aborted string
	Msg     string
	Stacks  string
}

func (x *XSpec) RunHistory(hist []Op, wantDump bool) HistOutcome {
	if x.ExecNode != nil {
		o := x.ExecNode(x, hist, wantDump)
		ConformanceCheck()
		return o
	}
	var out HistOutcome
	deadEnd = false
	nextOps = nil
	full := hist
	if len(x.Prefix) > 0 {
		full = append(append([]Op{}, x.Prefix...), hist...)
	}
	res := vsched.Run(vsched.Opts{}, func(s *vsched.Sched) {
		out.MM, out.Dump = x.Exec(x, s, full, wantDump)
	})
	out.Dead = deadEnd
	out.Next = nextOps
	ConformanceCheck()
	out.absorb(res, len(full))
	if out.MM != nil && len(x.Prefix) > 0 {
		out.MM.Op = "after prefix [" + HistString(x.Prefix) + "] " + out.MM.Op
	}
	return out
}

// absorb turns an aborted scheduler run (fatal, panic, deadlock...) into a mismatch.
func (out *HistOutcome) absorb(res *vsched.Result, step int) {
	if res.Aborted != "" {
		out.Aborted = res.Aborted
		out.Msg = res.Msg
		out.Stacks = res.Stacks
		out.MM = &Mismatch{Step: step, Op: "-", Where: "process", Want: "runs", Got: res.Aborted + ": " + res.Msg, Class: "process-" + res.Aborted}
	}
}

// deadEnd is set by an Exec function to say "do not extend this history".
var deadEnd bool

// nextOps is set by an Exec function: dynamically enabled letters for the children of this node.
var nextOps []Op

type xReplay struct {
	Kind    string    `json:"kind"` // "xstate"
	Check   string    `json:"check"`
	Config  string    `json:"config"`
	History []Op      `json:"history"`
	HistStr string    `json:"history_str"`
	Found   *Mismatch `json:"mismatch"`
	Stacks  string    `json:"stacks,omitempty"`
	Full    []Op      `json:"unshrunk_history,omitempty"`
}

// Shrink removes operations while the history still fails with the same symptom class.
func (x *XSpec) Shrink(hist []Op, class string) ([]Op, HistOutcome) {
	cur := append([]Op(nil), hist...)
	last := x.RunHistory(cur, false)
	changed := true
	for changed {
		changed = false
		for i := len(cur) - 1; i >= 0; i-- {
			cand := append(append([]Op(nil), cur[:i]...), cur[i+1:]...)
			o := x.RunHistory(cand, false)
			if o.MM != nil && o.MM.Class == class {
				cur = cand
				last = o
				changed = true
			}
		}
	}
	// prefix-minimal: if a proper prefix of the shrunk history already violates, that prefix is the witness
	for n := 1; n < len(cur); n++ {
		o := x.RunHistory(cur[:n], false)
		if o.MM != nil {
			return append([]Op(nil), cur[:n]...), o
		}
	}
	return cur, last
}

// Explore enumerates all histories up to x.Depth, sharded by the first two letters.
func (x *XSpec) Explore(r *Report, job *Job) {
	A := len(x.Alphabet)
	r.Bounds[x.Name] = map[string]interface{}{"depth": x.Depth, "alphabet": A, "letters": alphaStrings(x.Alphabet)}
	var hist []Op
	idx2 := 0
	// depth at which subtrees are dealt out to shards: enough units for a good balance
	sd := 1
	for n := A; n < 60*job.NShards && sd < x.Depth; n *= A {
		sd++
	}
	var rec func(depth int)
	rec = func(depth int) {
		if r.Incomplete && r.Expired() {
			return
		}
		// ownership: nodes of depth < 2 belong to shard 0; deeper ones to the shard of their depth-2 ancestor
		// shallow nodes are executed by every shard (each must know which prefixes already violate) but
		// only shard 0 counts and reports them
		report := depth >= sd || job.Shard == 0
		extend := true
		var dyn []Op
		if !report {
			out := x.RunHistory(hist, false)
			if out.MM != nil || out.Dead {
				extend = false
			}
			dyn = out.Next
		} else {
			if r.Expired() {
				return
			}
			out := x.RunHistory(hist, true)
			dyn = out.Next
			r.Count("evaluations", 1)
			r.Count("transitions", int64(len(hist)))
			if out.Dump != "" {
				r.Distinct("states", x.Name+"|"+out.Dump)
			}
			if len(hist) == x.Depth {
				r.Sample(map[string]interface{}{"config": x.Name, "history": HistString(hist)})
			}
			if out.Dead {
				extend = false
				r.Count("dead_ends", 1)
			}
			if out.MM != nil {
				extend = false
				sh, so := x.Shrink(hist, out.MM.Class)
				mm := so.MM
				if mm == nil {
					mm = out.MM
					sh = hist
				}
				// the signature names the whole witness: start-state prefix (if any) plus the shrunk history
				sig := fmt.Sprintf("%s|%s|%s|%s", x.Property, x.Name, mm.Class, HistString(append(append([]Op{}, x.Prefix...), sh...)))
				r.Violate(Violation{Property: x.Property, Sig: sig, Class: mm.Class,
					Summary: fmt.Sprintf("[%s] %s :: %s", x.Name, HistString(append(append([]Op{}, x.Prefix...), sh...)), mm.String()),
					Replay:  mustJSON(xReplay{Kind: "xstate", Check: job.Check, Config: x.Name, History: sh, HistStr: HistString(sh), Found: mm, Stacks: so.Stacks, Full: append([]Op(nil), hist...)})})
			}
		}
		if !extend || depth == x.Depth {
			return
		}
		letters := x.Alphabet
		if len(dyn) > 0 {
			letters = append(append([]Op{}, x.Alphabet...), dyn...)
		}
		for _, o := range letters {
			if x.Prune != nil && x.Prune(hist, o) {
				continue
			}
			if depth == sd-1 {
				own := idx2%job.NShards == job.Shard
				idx2++
				if !own {
					continue
				}
			}
			hist = append(hist, o)
			rec(depth + 1)
			hist = hist[:len(hist)-1]
		}
	}
	rec(0)
}

func alphaStrings(a []Op) string {
	p := make([]string, len(a))
	for i, o := range a {
		p[i] = o.String()
	}
	return strings.Join(p, " ")
}
