//go:build verif

package vharness

import (
	"fmt"
	"sort"
	"strings"

	"github.com/douban/gobeansdb/store"
	"github.com/douban/gobeansdb/vshim/vos"
	"github.com/douban/gobeansdb/vshim/vsched"
)

// modelString is a canonical rendering of the model (for fork caches).
func modelString(md *Model) string {
	ks := md.Keys()
	var sb strings.Builder
	for _, k := range ks {
		v := md.M[k]
		fmt.Fprintf(&sb, "%s=%d/%v/%d/%x/%d;", k, v.Ver, v.VerAlt, v.Flag, Hash64(string(v.Body)), v.TS)
	}
	return sb.String()
}

// c02 fork cache: (fs at close, model) pairs whose subset enumeration was already done
var c02Seen = map[uint64]bool{}

// forkReopen opens a fresh process on a clone of fs with the index files in
// drop removed, and compares every key with the model.
func forkReopen(cfg *store.VerifCfg, fs *vos.FS, md0 *Model, keys []string, drop []string, step int) HistOutcome {
	var out HistOutcome
	f2 := fs.Clone()
	for _, p := range drop {
		f2.RemoveRaw(p)
	}
	md := md0.Clone()
	res := vsched.Run(vsched.Opts{}, func(s *vsched.Sched) {
		m := &Machine{Cfg: cfg, S: s, FS: f2}
		vos.Attach(f2)
		if err := m.Open(); err != nil {
			out.MM = &Mismatch{Step: step, Op: "reopen", Where: "open", Want: "opens", Got: err.Error(), Class: "open-error"}
			return
		}
		defer m.Exit()
		s.Drain()
		Adopt(m, md)
		out.MM = Battery(m, md, keys, step, BatteryOpts{})
	})
	out.absorb(res, step)
	if out.MM != nil {
		out.MM.Op = "reopen-without[" + strings.Join(baseNames(drop), ",") + "]"
	}
	return out
}

func baseNames(ps []string) []string {
	out := make([]string, len(ps))
	for i, p := range ps {
		out[i] = p[strings.LastIndex(p, "/")+1:]
	}
	return out
}

func c02ExecNode(x *XSpec, hist []Op, wantDump bool) HistOutcome {
	var out HistOutcome
	var fsAtClose *vos.FS
	var mdAtClose *Model
	res := vsched.Run(vsched.Opts{}, func(s *vsched.Sched) {
		m := NewMachine(s, x.Cfg, nil)
		defer m.Exit()
		md := NewModel(x.Cfg.CheckVHash)
		restarted := false
		for i, o := range hist {
			if o.K == "restart" {
				restarted = true
			}
			if mm := Step(m, md, o, i); mm != nil {
				out.MM = mm
				return
			}
		}
		if mm := Battery(m, md, x.Keys, len(hist), BatteryOpts{TombVerExact: !restarted}); mm != nil {
			out.MM = mm
			return
		}
		if wantDump {
			out.Dump = m.Dump()
		}
		// clean shutdown, process exit
		s.Drain()
		m.St.Close()
		m.Exit()
		fsAtClose = m.FS.Clone()
		mdAtClose = md
	})
	out.absorb(res, len(hist))
	if out.MM != nil || fsAtClose == nil {
		return out
	}
	key := Hash64(fsAtClose.Hash() + "|" + modelString(mdAtClose))
	if c02Seen[key] {
		c02Stats.cacheHits++
		return out
	}
	c02Seen[key] = true
	var idx []string
	for _, p := range fsAtClose.Paths() {
		if strings.HasSuffix(p, ".idx.hash") || strings.HasSuffix(p, ".idx.s") || strings.HasSuffix(p, ".idx.m") {
			idx = append(idx, p)
		}
	}
	sort.Strings(idx)
	n := len(idx)
	if n > c02Stats.maxIdx {
		c02Stats.maxIdx = n
	}
	if n > 8 {
		c02Stats.capped++
		n = 8
	}
	for mask := 0; mask < 1<<uint(n); mask++ {
		var drop []string
		for i := 0; i < n; i++ {
			if mask>>uint(i)&1 == 1 {
				drop = append(drop, idx[i])
			}
		}
		c02Stats.forks++
		fo := forkReopen(x.Cfg, fsAtClose, mdAtClose, x.Keys, drop, len(hist))
		if fo.MM != nil {
			fo.Dump = out.Dump
			return fo
		}
	}
	return out
}

var c02Stats struct {
	forks, cacheHits, capped int64
	maxIdx                   int
}

func c02Specs(tier string) []*XSpec {
	keys := []string{"a", "b"}
	mk := func(c *store.VerifCfg, al []Op, d int) *XSpec {
		return &XSpec{Property: "C02", Name: c.Name, Cfg: c, Alphabet: al, Depth: d, Keys: keys, ExecNode: c02ExecNode}
	}
	base := perKey(keys, Op{K: "set", V: "s"}, Op{K: "del"}, Op{K: "set", V: "r257"})
	base = append(base, Op{K: "set", V: "r256", Key: "a"}) // a record that ends exactly on a block boundary
	glob := []Op{{K: "flush"}, {K: "bg"}, {K: "dump"}, {K: "merge"}, {K: "restart", A: []int{0}}, {K: "restart", A: []int{1}}, {K: "restart", A: []int{3}}}
	al := append(append([]Op{}, base...), glob...)
	vh := append(append([]Op{}, al...), perKey(keys, Op{K: "setsame", Rev: 3})...)
	// three keys in one chunk with hint splits of two items: split rotation inside a chunk
	keys3 := []string{"a", "b", "c"}
	al3 := append(perKey(keys3, Op{K: "set", V: "s"}), Op{K: "del", Key: "a"}, Op{K: "flush"}, Op{K: "dump"}, Op{K: "restart", A: []int{0}}, Op{K: "restart", A: []int{1}})
	mk3 := func(d int) *XSpec {
		c := cfgK1s()
		return &XSpec{Property: "C02", Name: c.Name, Cfg: c, Alphabet: al3, Depth: d, Keys: keys3, ExecNode: c02ExecNode}
	}
	if tier == "quick" {
		return []*XSpec{mk(cfgK1(), al, 4), mk(cfgK16(), vh, 3), mk3(4)}
	}
	more := append(append([]Op{}, al...), perKey(keys, Op{K: "incr"}, Op{K: "set", V: "x300"}, Op{K: "set", V: "s", Rev: 3})...)
	more = append(more, Op{K: "restart", A: []int{2}})
	return []*XSpec{mk(cfgK1(), more, 4), mk(cfgK16(), append(more, perKey(keys, Op{K: "setsame", Rev: 3})...), 4), mk(cfgK256(), al, 4), mk(cfgK1(), al, 5), mk3(6)}
}

func C02(job *Job, r *Report) {
	r.Level = "model_checking"
	r.Rule = "part (a): every history up to the stated depth over the alphabet (mutators, flush, background work, hint dump, merge, restart keeping all / dropping *.hash / dropping all index files); after every history: clean shutdown, process exit, then for EVERY subset of the index files present (*.idx.hash, *.idx.s, *.idx.m) a fresh process is opened on a copy of the directory and every key is read through every read path and compared with the reference map of acknowledged operations; identical (directory, model) pairs are forked once. part (b): see schedules in coverage.part_b"
	r.Assumptions = []string{"versions of deleted keys are not compared after a restart; versions after a tree-only bump (check_vhash + explicit revision) may be either the tree's or the record's (both as the property states)", "memfs models POSIX file semantics", "background work is drained before shutdown in part (a); part (b) explores shutdown with work pending"}
	for _, x := range c02Specs(job.Tier) {
		if job.Part != "" && job.Part != x.Name {
			continue
		}
		x.Explore(r, job)
	}
	// part (b): schedules of shutdown vs asynchronous flush / flusher / dumper
	pb := 2
	if job.Tier != "quick" {
		pb = 3
	}
	if job.Part == "" || job.Part == "b" {
		runScenarios(&Job{Check: job.Check, Tier: job.Tier, Shard: job.Shard, NShards: job.NShards, Seed: job.Seed}, r, c02bScenarios(), []int{pb}, -1)
		r.Extra["part_b"] = map[string]interface{}{"scenarios": []string{"B1-rotate-close-exit", "B2-rotate-close-exit-flusher", "B3-rotate-close-exit-flusher-dumper", "B4-two-rotations-close-exit-flusher"}, "preemption_bound": pb,
			"rule": "writer fills a file, the next set rotates (spawning the asynchronous flush of the previous file), then Close, then process exit (all other goroutines abandoned where they are); optional periodic flusher and hint dumper threads; every interleaving up to the preemption bound; after exit the store is reopened and every acknowledged write must be readable"}
	}
	r.Count("reopen_forks", c02Stats.forks)
	r.Count("fork_cache_hits", c02Stats.cacheHits)
	r.Count("subset_cap_hits", c02Stats.capped)
	r.Count("traces_validated_against_impl", r.Counters["evaluations"]+c02Stats.forks)
	if c02Stats.capped > 0 {
		r.capOnce("more than 8 index files at a shutdown: only subsets of the first 8 enumerated")
	}
	r.Bounds["max_index_files_seen"] = c02Stats.maxIdx
}
