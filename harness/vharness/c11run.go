//go:build verif

package vharness

import (
	"fmt"
	"strings"

	"github.com/douban/gobeansdb/vshim/vsched"
)

type protoReplay struct {
	Kind  string    `json:"kind"`
	Check string    `json:"check"`
	Run   protoRun  `json:"run"`
	Bytes string    `json:"bytes_sent"`
	Found *Mismatch `json:"mismatch"`
	Out   string    `json:"server_output"`
}

func protoRunOnce(al map[string]Letter, run protoRun) protoOutcome {
	var o protoOutcome
	res := vsched.Run(vsched.Opts{}, func(s *vsched.Sched) {
		o = protoExec(al, run, s)
	})
	ConformanceCheck()
	if res.Aborted != "" {
		mm := &Mismatch{Op: strings.Join(run.Script, " "), Where: "process", Want: "keeps running", Got: res.Aborted + ": " + res.Msg, Class: "process-" + res.Aborted}
		o.c11 = mm
	}
	return o
}

func pick(o protoOutcome, prop string) *Mismatch {
	if prop == "C12" {
		return o.c12
	}
	return o.c11
}

// protoExplore enumerates scripts and delivery variants for property prop.
func protoExplore(job *Job, r *Report, prop string) {
	letters := protoAlphabet()
	al := map[string]Letter{}
	var names []string
	for _, l := range letters {
		al[l.Name] = l
		if l.CoreOnly {
			continue
		}
		names = append(names, l.Name)
	}
	maxLen := 2
	if job.Tier != "quick" {
		maxLen = 3
	}
	r.Bounds["alphabet"] = names
	r.Bounds["max_script_letters"] = maxLen
	unit := 0
	report := func(run protoRun, mm *Mismatch, o protoOutcome, variant string) {
		// shrink: drop letters while the same class fails in the whole-stream variant
		script := append([]string{}, run.Script...)
		best := run
		for changed := true; changed; {
			changed = false
			for i := len(script) - 1; i >= 0 && len(script) > 1; i-- {
				cand := append(append([]string{}, script[:i]...), script[i+1:]...)
				rr := protoRun{Script: cand, Split: -1, Cut: -1, Conns: 1}
				if m2 := pick(protoRunOnce(al, rr), prop); m2 != nil && m2.Class == mm.Class {
					script = cand
					best = rr
					variant = "whole"
					changed = true
				}
			}
		}
		if variant != "whole" {
			if m2 := pick(protoRunOnce(al, protoRun{Script: script, Split: -1, Cut: -1, Conns: 1}), prop); m2 != nil && m2.Class == mm.Class {
				variant = "whole"
				best = protoRun{Script: script, Split: -1, Cut: -1, Conns: 1}
			}
		}
		fo := protoRunOnce(al, best)
		fm := pick(fo, prop)
		if fm == nil {
			fm = mm
		}
		sig := fmt.Sprintf("%s|%s|%s|%s", prop, fm.Class, strings.Join(script, " "), variant)
		r.Violate(Violation{Property: prop, Sig: sig, Class: fm.Class, Summary: fmt.Sprintf("[%s %s] %s", strings.Join(script, " "), variant, fm.String()),
			Replay: mustJSON(protoReplay{Kind: "proto", Check: prop, Run: best, Found: fm, Out: fo.obs})})
	}
	var rec func(script []string)
	rec = func(script []string) {
		if r.Expired() {
			return
		}
		if len(script) > 0 {
			mine := unit%job.NShards == job.Shard
			unit++
			if mine {
				stream := ""
				for _, n := range script {
					stream += al[n].Raw
				}
				total := len(stream) + len(probeCmd)
				variants := []protoRun{{Script: script, Split: -1, Cut: -1, Conns: 1}}
				if len(script) <= 2 {
					for sp := 1; sp < len(stream)+2 && sp < total; sp++ {
						variants = append(variants, protoRun{Script: script, Split: sp, Cut: -1, Conns: 1})
					}
					for c := 0; c < len(stream); c++ {
						variants = append(variants, protoRun{Script: script, Split: -1, Cut: c, Conns: 1})
					}
				}
				reported := false
				for _, v := range variants {
					o := protoRunOnce(al, v)
					r.Count("evaluations", 1)
					r.Count("transitions", int64(len(script)))
					r.Distinct("states", o.obs)
					vname := "whole"
					if v.Split > 0 {
						vname = "split"
						r.Count("split_variants", 1)
					}
					if v.Cut >= 0 {
						vname = "cut"
						r.Count("cut_variants", 1)
					}
					if mm := pick(o, prop); mm != nil && !reported {
						reported = true
						report(v, mm, o, vname)
					}
					if v.Split < 0 && v.Cut < 0 {
						r.Distinct("nontrivial", strings.Join(script, " ")+"|"+o.obs)
						r.Sample(map[string]interface{}{"script": strings.Join(script, " "), "output": clip(o.obs)})
					}
				}
			}
		}
		if len(script) == maxLen {
			return
		}
		for _, n := range names {
			if len(script) > 0 && script[len(script)-1] == "no-terminator" {
				continue // only meaningful as the last letter
			}
			rec(append(append([]string{}, script...), n))
		}
	}
	rec(nil)
	// longer scripts over the stateful core of the alphabet (one key: numeric / plain / C-allocated values, delete, incr,
	// add, cas, reads), delivered whole: sequences such as incr - delete - incr need three or four letters
	core := []string{"get-a", "set-a", "set-a-num", "set-a-c65", "set-a-rev1-c65", "set-a-text11k", "delete-a", "incr-a-1", "add-a", "cas-a", "get-meta-a"}
	core4 := []string{"get-a", "set-a-num", "set-a-c65", "delete-a", "incr-a-1"}
	r.Bounds["core_letters_scripts_of_3"] = core
	r.Bounds["core_letters_scripts_of_4"] = core4
	var recCore func(script []string, letters []string, n int)
	recCore = func(script []string, letters []string, n int) {
		if r.Expired() {
			return
		}
		if len(script) == n {
			mine := unit%job.NShards == job.Shard
			unit++
			if !mine {
				return
			}
			v := protoRun{Script: script, Split: -1, Cut: -1, Conns: 1}
			o := protoRunOnce(al, v)
			r.Count("evaluations", 1)
			r.Count("core_scripts", 1)
			r.Count("transitions", int64(len(script)))
			r.Distinct("states", o.obs)
			r.Distinct("nontrivial", strings.Join(script, " ")+"|"+o.obs)
			if mm := pick(o, prop); mm != nil {
				report(v, mm, o, "whole")
			}
			return
		}
		for _, n2 := range letters {
			recCore(append(append([]string{}, script...), n2), letters, n)
		}
	}
	recCore(nil, core, 3) // in the thorough tier too: the core holds a letter that the full alphabet leaves out (too long to cut)
	recCore(nil, core4, 4)
}

func C11(job *Job, r *Report) {
	r.Level = "model_checking"
	r.Rule = "every script of up to N letters (quick 2, thorough 3) over a 60-letter alphabet of client byte strings (well-formed get/gets/set/add/replace/cas/delete/incr with and without noreply, binary and empty values, multi-get incl. duplicate keys, explicit revision; special keys @ / @@ / ? / ?? of every shape; stats, version, verbosity, flush_all; quit, unsupported verbs; malformed: wrong arity, non-numeric / negative / overflowing numbers, body longer / shorter than declared, missing CR, bare LF, empty line, missing terminator, over-long and control-character keys), followed by a resynchronising filler and a probe get; each script (of up to 2 letters) is delivered whole, in EVERY 2-segment split and cut at EVERY byte (plus, whole only, every script of 3 letters over an 11-letter stateful core (incl. an 11000-byte compressible value, above the two-stage compression threshold) and of 4 letters over a 5-letter core: reads, plain / numeric / C-allocated sets, delete, incr, add, cas on one key), through ServerConn.ServeOnce on an in-memory connection against the real StorageClient on memfs. Oracle: (1) the output parses with the harness's reply grammar; (2) commands in the modeled domain get exactly the reference map's reply, one per command in order, none for noreply; (3) other well-formed commands get exactly one valid reply; unsupported ones an error reply or an orderly close; inside/after a malformed region replies stay grammatical and, unless the connection was closed, the probe is answered last and correctly; (4) a cut stream yields replies for the complete commands only; a second connection still answers the probe and (if all letters were modeled) holds the model's content; panics and blocked token waits are violations; states = distinct server outputs"
	r.Assumptions = []string{"timeouts do not fire (virtual clock)", "error text and error class of a malformed command are not pinned", "one connection served at a time (the accept loop is not executed)"}
	protoExplore(job, r, "C11")
}

func C12(job *Job, r *Report) {
	r.Level = "model_checking"
	r.Rule = "same scripts and delivery variants (whole, every 2-segment split, cut at every byte; core scripts of 3 and 4 letters whole) as C11 with value sizes on both sides of body_c_str (64) and of the compression threshold; after each run (all input consumed or cut, then forced flush) the invariant is evaluated: every request-limiter token is back (len(RL.Chan)==cap) and GetData, SetData, FlushData and AllocRL have count = size = 0; a server that would block on the token channel is detected structurally before it blocks; glibc MALLOC_PERTURB_ poisons freed C buffers so that a use after free shows up as wrong reply bytes (C11's oracle) and a double free aborts the worker. part (b): 4 scenarios of 2-3 connections served concurrently (gets, set of a C-allocated value, delete, incr) with FEWER request tokens than connections; the token channel operations are blocking scheduling points (and the instant after a send), every interleaving at token, lock, file-system and spawn points with at most N preemptions (quick 2, thorough 3) is executed; at quiescence all tokens back, counters zero, one valid reply per complete command; a connection blocked for ever on the token channel is a deadlock"
	r.Assumptions = []string{"connections are served one after the other (command-granularity interleaving of two connections is covered by the second-connection probe)", "OOM refusal paths are not reachable with the configured limits"}
	if job.Part == "" || job.Part == "a" {
		protoExplore(job, r, "C12")
	}
	if job.Part == "" || job.Part == "b" {
		pb := 2
		if job.Tier != "quick" {
			pb = 3
		}
		runScenarios(&Job{Check: job.Check, Tier: job.Tier, Shard: job.Shard, NShards: job.NShards, Seed: job.Seed}, r, c12bScenarios(), []int{pb}, -1)
		r.Bounds["preemption_bound_completed_part_b"] = pb
	}
}
