//go:build verif

package vharness

import (
	"fmt"
	"io"
	"strconv"
	"strings"

	"github.com/douban/gobeansdb/cmem"
	mc "github.com/douban/gobeansdb/memcache"
	"github.com/douban/gobeansdb/store"
	"github.com/douban/gobeansdb/vshim/vsched"
)

// segConn delivers the input in segments (one Read never crosses a segment
// boundary) and reports EOF at the end: a client that sent its bytes and went away.
type segConn struct {
	segs   [][]byte
	out    []byte
	closed bool
}

func (c *segConn) Read(p []byte) (int, error) {
	for len(c.segs) > 0 && len(c.segs[0]) == 0 {
		c.segs = c.segs[1:]
	}
	if len(c.segs) == 0 {
		return 0, io.EOF
	}
	n := copy(p, c.segs[0])
	c.segs[0] = c.segs[0][n:]
	return n, nil
}
func (c *segConn) Write(p []byte) (int, error) { c.out = append(c.out, p...); return len(p), nil }
func (c *segConn) Close() error                { c.closed = true; return nil }

// ---------------------------------------------------------------- reply grammar

type Reply struct {
	Kind  string // "line", "values", "stats"
	Line  string
	Items map[string]GetItem
	Raw   string
}

func (r Reply) errorClass() bool {
	if r.Kind != "line" {
		return false
	}
	return r.Line == "ERROR" || strings.HasPrefix(r.Line, "CLIENT_ERROR") || strings.HasPrefix(r.Line, "SERVER_ERROR") || r.Line == "NOT_STORED"
}

var statusWords = map[string]bool{"STORED": true, "NOT_STORED": true, "DELETED": true, "NOT_FOUND": true, "OK": true, "ERROR": true, "EXISTS": true, "END": true}

// ParseReplies splits a server output stream into replies. ok=false if some
// part of the stream is not a syntactically valid reply (rest holds it).
func ParseReplies(out string) (reps []Reply, ok bool, rest string) {
	for len(out) > 0 {
		i := strings.Index(out, "\r\n")
		if i < 0 {
			return reps, false, out
		}
		line := out[:i]
		switch {
		case strings.HasPrefix(line, "VALUE ") || line == "END":
			// a get reply: VALUE blocks up to END
			rp := Reply{Kind: "values", Items: map[string]GetItem{}}
			cur := out
			for {
				j := strings.Index(cur, "\r\n")
				if j < 0 {
					return reps, false, out
				}
				l := cur[:j]
				cur = cur[j+2:]
				if l == "END" {
					break
				}
				f := strings.Split(l, " ")
				if len(f) < 4 || len(f) > 5 || f[0] != "VALUE" {
					return reps, false, out
				}
				flag, e1 := strconv.Atoi(f[2])
				n, e2 := strconv.Atoi(f[3])
				if e1 != nil || e2 != nil || n < 0 || len(cur) < n+2 || cur[n:n+2] != "\r\n" {
					return reps, false, out
				}
				if len(f) == 5 {
					if _, e := strconv.Atoi(f[4]); e != nil {
						return reps, false, out
					}
				}
				if _, dup := rp.Items[f[1]]; dup {
					return reps, false, out
				}
				rp.Items[f[1]] = GetItem{Flag: flag, Body: cur[:n]}
				cur = cur[n+2:]
			}
			rp.Raw = out[:len(out)-len(cur)]
			reps = append(reps, rp)
			out = cur
		case strings.HasPrefix(line, "STAT "):
			cur := out
			for {
				j := strings.Index(cur, "\r\n")
				if j < 0 {
					return reps, false, out
				}
				l := cur[:j]
				cur = cur[j+2:]
				if l == "END" {
					break
				}
				f := strings.Split(l, " ")
				if len(f) != 3 || f[0] != "STAT" {
					return reps, false, out
				}
			}
			reps = append(reps, Reply{Kind: "stats", Raw: out[:len(out)-len(cur)]})
			out = cur
		default:
			okLine := statusWords[line] || strings.HasPrefix(line, "CLIENT_ERROR ") || strings.HasPrefix(line, "SERVER_ERROR ") || strings.HasPrefix(line, "VERSION ") ||
				line == "CLIENT_ERROR" || line == "SERVER_ERROR"
			if !okLine {
				if _, e := strconv.Atoi(line); e == nil {
					okLine = true
				}
			}
			if !okLine || strings.ContainsAny(line, "\r\n") {
				return reps, false, out
			}
			reps = append(reps, Reply{Kind: "line", Line: line, Raw: out[:i+2]})
			out = out[i+2:]
		}
	}
	return reps, true, ""
}

// ---------------------------------------------------------------- alphabet

// Letter is one element of a client byte stream.
type Letter struct {
	Name  string
	Raw   string
	Class string // W modeled exactly, V any one valid reply, Q one error-class reply or orderly close, M malformed region
	// Apply computes the expected reply of a W letter from the model and applies its effect.
	// nil reply = none expected (noreply).
	Apply func(md *Model, ts uint32) *Reply
	// CoreOnly letters are too long to be cut at every byte: they appear only in the whole-delivery core scripts.
	CoreOnly bool
}

func lineReply(s string) *Reply { return &Reply{Kind: "line", Line: s} }

func getReply(md *Model, req []string, keys ...string) *Reply {
	rp := &Reply{Kind: "values", Items: map[string]GetItem{}}
	for i, k := range keys {
		if v := md.M[k]; v.Live() {
			rp.Items[req[i]] = GetItem{Flag: int(v.Flag), Body: string(v.Body)}
		}
	}
	return rp
}

func setLetter(name, verb, key string, flag uint32, rev int, body string, noreply bool, extra string) Letter {
	nr := ""
	if noreply {
		nr = " noreply"
	}
	raw := fmt.Sprintf("%s %s %d %d %d%s%s\r\n%s\r\n", verb, key, flag, rev, len(body), extra, nr, body)
	return Letter{Name: name, Raw: raw, Class: "W", Apply: func(md *Model, ts uint32) *Reply {
		st := md.Set(key, []byte(body), flag, rev, ts)
		if noreply {
			return nil
		}
		return lineReply(st)
	}}
}

func protoAlphabet() []Letter {
	big := strings.Repeat("compress me please, compress me please. ", 8) // 320 bytes, compressible
	c65 := strings.Repeat("x", 65)
	// moderately compressible text (ratio around 0.5): the compressed copy is still larger than body_c_str (64)
	words := []string{"alpha", "bravo", "charlie", "delta", "echo", "foxtrot", "golf", "hotel", "india", "juliet", "kilo", "lima", "mike", "november", "oscar", "papa"}
	lcg := uint32(7)
	text600 := ""
	for len(text600) < 600 {
		lcg = lcg*1664525 + 1013904223
		text600 += words[(lcg>>24)%16] + " "
	}
	text600 = text600[:600]
	var al []Letter
	w := func(name, raw string, f func(md *Model, ts uint32) *Reply) {
		al = append(al, Letter{Name: name, Raw: raw, Class: "W", Apply: f})
	}
	other := func(class, name, raw string) { al = append(al, Letter{Name: name, Raw: raw, Class: class}) }
	// --- well-formed, modeled exactly
	w("get-a", "get a\r\n", func(md *Model, ts uint32) *Reply { return getReply(md, []string{"a"}, "a") })
	w("get-a-b", "get a b\r\n", func(md *Model, ts uint32) *Reply { return getReply(md, []string{"a", "b"}, "a", "b") })
	w("get-a-a", "get a a\r\n", func(md *Model, ts uint32) *Reply { return getReply(md, []string{"a"}, "a") })
	w("gets-a", "gets a\r\n", func(md *Model, ts uint32) *Reply { return getReply(md, []string{"a"}, "a") })
	al = append(al, setLetter("set-a", "set", "a", 0, 0, "abc", false, ""))
	al = append(al, setLetter("set-a-binary-f5", "set", "a", 5, 0, "x\r\ny\x00z\r\nEND\r\n", false, ""))
	al = append(al, setLetter("set-a-empty", "set", "a", 0, 0, "", false, ""))
	al = append(al, setLetter("set-b-noreply", "set", "b", 0, 0, "bbbb", true, ""))
	al = append(al, setLetter("add-a", "add", "a", 0, 0, "added", false, ""))
	al = append(al, setLetter("replace-b", "replace", "b", 0, 0, "replaced", false, ""))
	al = append(al, setLetter("cas-a", "cas", "a", 0, 0, "cased", false, " 7"))
	al = append(al, setLetter("set-a-rev7", "set", "a", 0, 7, "rev7", false, ""))
	al = append(al, setLetter("set-a-c65", "set", "a", 0, 0, c65, false, ""))
	al = append(al, setLetter("set-a-rev1-c65", "set", "a", 0, 1, c65+"r", false, "")) // explicit revision 1: refused (silently) once a exists; C-allocated value
	al = append(al, setLetter("set-b-rev1-big", "set", "b", 0, 1, big+"r", false, ""))
	al = append(al, setLetter("set-b-big", "set", "b", 0, 0, big, false, ""))
	al = append(al, setLetter("set-b-text600", "set", "b", 0, 0, text600, false, "")) // stored compressed, compressed copy C-allocated
	// above the two-stage compression threshold (10240 bytes): a trial compression of the head, then the whole body
	t11k := setLetter("set-a-text11k", "set", "a", 0, 0, strings.Repeat(text600, 19)[:11000], false, "")
	t11k.CoreOnly = true
	al = append(al, t11k)
	al = append(al, setLetter("set-a-num", "set", "a", store.FLAG_INCR, 0, "10", false, ""))
	w("delete-a", "delete a\r\n", func(md *Model, ts uint32) *Reply { return lineReply(md.Delete("a", ts)) })
	w("delete-b-noreply", "delete b noreply\r\n", func(md *Model, ts uint32) *Reply { md.Delete("b", ts); return nil })
	w("delete-a-0", "delete a 0\r\n", func(md *Model, ts uint32) *Reply { return lineReply(md.Delete("a", ts)) })
	w("incr-a-1", "incr a 1\r\n", func(md *Model, ts uint32) *Reply { return lineReply(md.Incr("a", 1, ts)) })
	w("incr-b-5-noreply", "incr b 5 noreply\r\n", func(md *Model, ts uint32) *Reply { md.Incr("b", 5, ts); return nil })
	// --- well-formed, any single valid reply
	other("V", "get-meta-a", "get ?a\r\n")
	other("V", "get-xmeta-a", "get ??a\r\n")
	other("V", "get-at", "get @\r\n")
	other("V", "get-at0", "get @0\r\n")
	other("V", "get-at-a", "get @a\r\n")
	other("V", "get-at-15hex", "get @0123456789abcde\r\n")
	other("V", "get-at-16hex", "get @0123456789abcdef\r\n")
	other("V", "get-at-17hex", "get @0123456789abcdef0\r\n")
	other("V", "get-at-zz", "get @zz\r\n")
	other("V", "get-atat-16hex", "get @@0123456789abcdef\r\n")
	other("V", "get-atat-15hex", "get @@0123456789abcde\r\n")
	other("V", "get-q", "get ?\r\n")
	other("V", "get-q-invalid", "get ?\x01bad\r\n")
	other("V", "get-longkey", "get "+strings.Repeat("k", 251)+"\r\n")
	other("V", "get-ctrlkey", "get a\x01b\r\n")
	other("V", "set-invalid-key", "set @x 0 0 1\r\nv\r\n")
	other("V", "set-longkey-empty-value", "set "+strings.Repeat("L", 240)+" 0 0 0\r\n\r\n") // record > 256 bytes with nothing to compress
	other("V", "incr-nonnumeric", "incr a abc\r\n")
	other("V", "incr-invalid-key", "incr @x 1\r\n")
	other("V", "stats", "stats\r\n")
	other("V", "stats-x", "stats curr_items\r\n")
	other("V", "version", "version\r\n")
	other("V", "verbosity", "verbosity 1\r\n")
	other("V", "flush_all", "flush_all\r\n")
	// --- error reply or orderly close
	other("Q", "quit", "quit\r\n")
	other("Q", "decr", "decr a 1\r\n")
	other("Q", "prepend", "prepend a 0 0 1\r\nx\r\n")
	other("Q", "append", "append a 0 0 1\r\nx\r\n")
	other("Q", "unknown-verb", "foo bar\r\n")
	// --- malformed regions (key mk is never probed)
	other("M", "set-arity", "set mk 0 0\r\n")
	other("M", "set-nonnumeric-flag", "set mk x 0 1\r\nv\r\n")
	other("M", "set-negative-len", "set mk 0 0 -1\r\n")
	other("M", "set-overflow-len", "set mk 0 0 99999999999999999999\r\n")
	other("M", "set-negative-exptime", "set mk 0 -1 1\r\nv\r\n")
	other("M", "set-body-longer", "set mk 0 0 3\r\nabcde\r\n")
	other("M", "set-body-shorter", "set mk 0 0 9\r\nabc\r\n")
	other("M", "set-missing-cr", "set mk 0 0 3\r\nabc\n")
	other("M", "get-nokey", "get\r\n")
	other("M", "get-bare-lf", "get a\n")
	other("M", "empty-line", "\r\n")
	other("M", "delete-nokey", "delete\r\n")
	other("M", "incr-arity", "incr a\r\n")
	other("M", "cas-arity", "cas mk 0 0 1\r\nv\r\n")
	other("M", "noreply-typo", "set mk 0 0 1 norepl\r\nv\r\n")
	other("M", "no-terminator", "get a")
	return al
}

// ---------------------------------------------------------------- one run

const protoFiller = "\r\n\r\n\r\n\r\n\r\n\r\n\r\n\r\n\r\n\r\n\r\n\r\n"
const probeCmd = "get p\r\n"
const probeVal = "probe-value"

type protoRun struct {
	Script []string `json:"script"`
	Split  int      `json:"split_at"` // -1 whole
	Cut    int      `json:"cut_at"`   // -1 none
	Conns  int      `json:"conns"`
}

func cfgProto() *store.VerifCfg {
	return &store.VerifCfg{Name: "proto", NumBucket: 1, TreeHeight: 3, DataFileMax: 64 << 10, SplitCap: 1024, BufIOCap: 4096,
		BodyMax: 12 << 10, BodyInC: 64, MaxReq: 3}
}

type protoOutcome struct {
	c11 *Mismatch
	c12 *Mismatch
	obs string
}

func countersString() string {
	d := &cmem.DBRL
	free, capa := mc.VerifTokensFree()
	return fmt.Sprintf("tokens %d/%d get %d/%d set %d/%d flush %d/%d alloc %d/%d", free, capa, d.GetData.Count, d.GetData.Size, d.SetData.Count, d.SetData.Size,
		d.FlushData.Count, d.FlushData.Size, d.AllocRL.Count, d.AllocRL.Size)
}

func countersZero() bool {
	d := &cmem.DBRL
	free, capa := mc.VerifTokensFree()
	return free == capa && d.GetData.Count == 0 && d.GetData.Size == 0 && d.SetData.Count == 0 && d.SetData.Size == 0 &&
		d.FlushData.Count == 0 && d.FlushData.Size == 0 && d.AllocRL.Count == 0 && d.AllocRL.Size == 0
}

// serve runs ServerConn.Serve on the given segments and returns the output
// and whether the server closed the connection before consuming all input.
func serve(m *Machine, segs [][]byte) (out string, wedged bool, early bool) {
	c := &segConn{segs: segs}
	conn := mc.VerifNewConn(c)
	// structural liveness: a server that would block on the token channel is detected before it blocks
	for !conn.VerifClosing() {
		if free, _ := mc.VerifTokensFree(); free == 0 {
			return string(c.out), true, false
		}
		if err := conn.ServeOnce(m.SC, m.Stats); err != nil {
			break
		}
	}
	left := conn.VerifBuffered()
	for _, sg := range c.segs {
		left += len(sg)
	}
	conn.Close()
	return string(c.out), false, left > 0
}

func protoExec(al map[string]Letter, run protoRun, s *vsched.Sched) protoOutcome {
	var o protoOutcome
	m := NewMachine(s, cfgProto(), nil)
	defer m.Exit()
	md := NewModel(false)
	// preset the probe key on its own connection
	Tick()
	if got := m.Cmd(fmtSet("p", 0, 0, []byte(probeVal))); got != "STORED\r\n" {
		o.c11 = &Mismatch{Op: "preset", Where: "setup", Want: "STORED", Got: got, Class: "setup"}
		return o
	}
	md.Set("p", []byte(probeVal), 0, 0, nowTS())
	m.St.VerifFlush(true)
	if !countersZero() {
		o.c12 = &Mismatch{Op: "preset", Where: "counters", Want: "all zero", Got: countersString(), Class: "leak-setup"}
		return o
	}
	var letters []Letter
	stream := ""
	var ends []int // end offset of each letter in the stream
	for _, n := range run.Script {
		l := al[n]
		letters = append(letters, l)
		stream += l.Raw
		ends = append(ends, len(stream))
	}
	hasM := false
	for _, l := range letters {
		if l.Class == "M" {
			hasM = true
		}
	}
	full := stream + probeCmd
	if hasM {
		// resynchronise after a malformed region (a pending short body swallows at most a few filler bytes)
		full = stream + protoFiller + probeCmd
	}
	sent := full
	if run.Cut >= 0 {
		sent = full[:run.Cut]
	}
	var segs [][]byte
	if run.Split > 0 && run.Split < len(sent) {
		segs = [][]byte{[]byte(sent[:run.Split]), []byte(sent[run.Split:])}
	} else {
		segs = [][]byte{[]byte(sent)}
	}
	Tick()
	ts := nowTS()
	out, wedged, early := serve(m, segs)
	o.obs = out
	desc := strings.Join(run.Script, " ")
	if wedged {
		o.c12 = &Mismatch{Op: desc, Where: "tokens", Want: "a free request token", Got: countersString(), Class: "wedged-no-token"}
		return o
	}
	reps, ok, rest := ParseReplies(out)
	if !ok {
		o.c11 = &Mismatch{Op: desc, Where: "framing", Want: "syntactically valid replies", Got: clip(rest), Class: "bad-framing"}
	}
	// walk the letters and the replies together, as long as every letter is exactly modeled
	ri := 0
	exact := true
	mayClose := false // an orderly close is acceptable from here on
	for li, l := range letters {
		if o.c11 != nil || !exact {
			break
		}
		if ends[li] > len(sent) {
			// the input was cut inside this letter: the server sees EOF mid-command and closes without a reply
			exact = false
			mayClose = true
			extraOK := true
			for _, rp := range reps[min(ri, len(reps)):] {
				if l.Class != "M" || !rp.errorClass() {
					extraOK = false
				}
			}
			if ri > len(reps) || !extraOK {
				o.c11 = &Mismatch{Op: desc, Where: "cut inside " + l.Name, Want: fmt.Sprintf("%d replies (for the complete commands only)", ri), Got: fmt.Sprintf("%d replies: %s", len(reps), clip(out)), Class: "reply-to-incomplete-command"}
			}
			break
		}
		switch l.Class {
		case "W":
			want := l.Apply(md, ts)
			if want == nil {
				continue
			}
			if ri >= len(reps) {
				o.c11 = &Mismatch{Op: desc, Where: "reply to " + l.Name, Want: replyString(want), Got: "(no reply)", Class: "missing-reply"}
			} else if !replyEqual(want, &reps[ri]) {
				o.c11 = &Mismatch{Op: desc, Where: "reply to " + l.Name, Want: replyString(want), Got: clip(reps[ri].Raw), Class: "wrong-reply"}
			}
			ri++
		case "V":
			if ri >= len(reps) {
				o.c11 = &Mismatch{Op: desc, Where: "reply to " + l.Name, Want: "one valid reply", Got: "(no reply)", Class: "missing-reply"}
			}
			ri++
		case "Q":
			if ri >= len(reps) {
				// orderly close instead of a reply: nothing more may follow
				exact = false
				mayClose = true
				if !early && run.Cut < 0 {
					o.c11 = &Mismatch{Op: desc, Where: "reply to " + l.Name, Want: "an error reply or a close", Got: "no reply, connection kept reading", Class: "missing-reply"}
				}
			} else if !reps[ri].errorClass() {
				o.c11 = &Mismatch{Op: desc, Where: "reply to " + l.Name, Want: "an error reply or an orderly close", Got: clip(reps[ri].Raw), Class: "wrong-reply"}
			} else {
				ri++
			}
		case "M":
			exact = false
			mayClose = true
		}
	}
	wantProbe := fmt.Sprintf("VALUE p 0 %d\r\n%s\r\nEND\r\n", len(probeVal), probeVal)
	if o.c11 == nil && run.Cut < 0 {
		switch {
		case exact:
			// every letter was modeled: exactly one more reply, the probe's, and no early close
			if early || len(reps) != ri+1 || reps[ri].Raw != wantProbe {
				o.c11 = &Mismatch{Op: desc, Where: "probe after the script", Want: fmt.Sprintf("%d replies, the last one the probe's", ri+1), Got: fmt.Sprintf("%d replies, closed early=%v: %s", len(reps), early, clip(out)), Class: "probe-unanswered"}
			}
		case early && mayClose:
			// orderly close: acceptable
		case early:
			o.c11 = &Mismatch{Op: desc, Where: "connection", Want: "stays open", Got: "closed before the input was consumed: " + clip(out), Class: "unexpected-close"}
		default:
			// all input was consumed: the probe came after the resynchronising filler and must be answered last
			if len(reps) == 0 || reps[len(reps)-1].Raw != wantProbe {
				o.c11 = &Mismatch{Op: desc, Where: "probe after malformed region", Want: "probe answered last", Got: clip(out), Class: "probe-unanswered"}
			}
		}
	}
	// second connection: the server still works, and (if everything was modeled) holds the model's content
	Tick()
	out2 := m.Cmd(probeCmd)
	if out2 != wantProbe && o.c11 == nil {
		o.c11 = &Mismatch{Op: desc, Where: "second connection", Want: wantProbe, Got: out2, Class: "other-connection-affected"}
	}
	if o.c11 == nil && exact && run.Cut < 0 {
		for _, k := range []string{"a", "b"} {
			if mm := Battery1(m, md, k, 0); mm != nil {
				mm.Op = desc
				mm.Where = "second connection get " + k
				o.c11 = mm
				break
			}
		}
	}
	// C12: quiescence
	s.Drain()
	m.St.VerifFlush(true)
	s.Drain()
	if !countersZero() {
		o.c12 = &Mismatch{Op: desc, Where: "counters at quiescence", Want: "tokens full, get/set/flush/alloc all zero", Got: countersString(), Class: "leak"}
	}
	return o
}

func min(a, b int) int {
	if a < b {
		return a
	}
	return b
}

func replyString(r *Reply) string {
	if r.Kind == "line" {
		return r.Line
	}
	var sb strings.Builder
	for k, it := range r.Items {
		fmt.Fprintf(&sb, "VALUE %s %d %d %q;", k, it.Flag, len(it.Body), it.Body)
	}
	return sb.String() + "END"
}

func replyEqual(want, got *Reply) bool {
	if want.Kind != got.Kind {
		return false
	}
	if want.Kind == "line" {
		return want.Line == got.Line
	}
	if len(want.Items) != len(got.Items) {
		return false
	}
	for k, it := range want.Items {
		g, ok := got.Items[k]
		if !ok || g.Body != it.Body || g.Flag != it.Flag {
			return false
		}
	}
	return true
}
