//go:build verif

package vharness

import (
	"fmt"
	"sort"
	"strings"

	"github.com/douban/gobeansdb/store"
)

// IndexFiles lists the derived index files currently on the memfs (sorted).
func (m *Machine) IndexFiles() []string {
	var out []string
	if m.FS == nil {
		return nil // free-running -race pass on the real file system: index files are left alone
	}
	for _, p := range m.FS.Paths() {
		if strings.HasSuffix(p, ".idx.hash") || strings.HasSuffix(p, ".idx.s") || strings.HasSuffix(p, ".idx.m") {
			out = append(out, p)
		}
	}
	sort.Strings(out)
	return out
}

// CleanRestart: drain background work, Close, process exit, delete the index
// files selected by sel (nil = none), reopen. Returns the open error if any.
func (m *Machine) CleanRestart(sel func(path string, i int) bool) error {
	m.S.Drain()
	m.St.Close()
	m.Exit()
	if sel != nil {
		for i, p := range m.IndexFiles() {
			if sel(p, i) {
				m.FS.RemoveRaw(p)
			}
		}
	}
	err := m.Open()
	if err == nil && m.AutoDrain {
		// the post-open hint sweep of older chunks runs in a goroutine; history-quantified
		// checks let it finish before the next letter (schedules are explored elsewhere)
		m.S.Drain()
	}
	return err
}

// Adopt resolves the version uncertainty the properties allow after a restart
// (C02: versions of deleted keys are not compared; tree-only version bumps may
// be lost) by reading the tree.
func Adopt(m *Machine, md *Model) {
	for k, v := range md.M {
		if v.Ver < 0 {
			ki := &store.KeyInfo{StringKey: k, Key: []byte(k)}
			p, _, err := m.St.Get(ki, true)
			v.Forgot = err == nil && p == nil
		} else if len(v.VerAlt) > 0 {
			ki := &store.KeyInfo{StringKey: k, Key: []byte(k)}
			p, _, err := m.St.Get(ki, true)
			if err == nil && p != nil && p.Ver != v.Ver {
				// the record on disk keeps its version until the next data write, so both stay possible
				for i, a := range v.VerAlt {
					if p.Ver == a {
						v.VerAlt[i] = v.Ver
						v.Ver = a
						break
					}
				}
			}
		}
	}
}

// StepProcess applies a process-level op. ok=false if the op is not one.
func StepProcess(m *Machine, md *Model, o Op, step int) (mm *Mismatch, ok bool) {
	switch o.K {
	case "flush":
		m.St.VerifFlush(true)
	case "flushp":
		Tick()
		m.St.VerifFlush(false)
	case "bg":
		m.S.Drain()
	case "dump":
		m.St.VerifDump()
	case "merge":
		m.St.VerifMerge()
	case "restart":
		// A[0]: 0 keep all, 1 drop *.hash, 2 drop *.s, 3 drop everything, or 100+mask over the sorted list
		mode := 0
		if len(o.A) > 0 {
			mode = o.A[0]
		}
		if mode == 4 {
			// the process ends WITHOUT Close: data flushed and hint splits dumped by the background loops,
			// but no final hint/tree dump; the next start loads the old tree dump and replays newer hints
			m.S.Drain()
			m.St.VerifFlush(true)
			m.St.VerifDump()
			m.S.Drain()
			m.Exit()
			if err := m.Open(); err != nil {
				return &Mismatch{Step: step, Op: o.String(), Where: "open", Want: "opens", Got: err.Error(), Class: "open-error"}, true
			}
			if m.AutoDrain {
				m.S.Drain()
			}
			Adopt(m, md)
			return nil, true
		}
		err := m.CleanRestart(func(p string, i int) bool {
			switch {
			case mode == 0:
				return false
			case mode == 1:
				return strings.HasSuffix(p, ".idx.hash")
			case mode == 2:
				return strings.HasSuffix(p, ".idx.s") || strings.HasSuffix(p, ".idx.m")
			case mode == 3:
				return true
			case mode >= 100:
				return (mode-100)>>uint(i)&1 == 1
			}
			return false
		})
		if err != nil {
			return &Mismatch{Step: step, Op: o.String(), Where: "open", Want: "opens", Got: err.Error(), Class: "open-error"}, true
		}
		Adopt(m, md)
	case "gc":
		// A = [begin, end, merge]
		b, e, mg := -1, -1, false
		if len(o.A) >= 2 {
			b, e = o.A[0], o.A[1]
		}
		if len(o.A) >= 3 {
			mg = o.A[2] != 0
		}
		bkt := 0
		if len(o.A) >= 4 {
			bkt = o.A[3]
		}
		m.S.Drain()
		_, _, err := m.St.GC(bkt, b, e, 0, mg, false)
		if err == nil {
			m.S.Drain()
			if g := m.St.VerifLastGC(bkt); g != nil && g.Err != nil {
				return &Mismatch{Step: step, Op: o.String(), Where: "gc", Want: "no error", Got: g.Err.Error(), Class: "gc-error"}, true
			}
		}
	default:
		return nil, false
	}
	return nil, true
}

// Step applies any op.
func Step(m *Machine, md *Model, o Op, step int) *Mismatch {
	if mm, ok := StepProcess(m, md, o, step); ok {
		return mm
	}
	return StepMutator(m, md, o, step)
}

func (m *Machine) Dump() string {
	return fmt.Sprintf("%s|fs=%s", m.St.VerifStateDump(), m.FS.Hash())
}
