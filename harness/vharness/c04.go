//go:build verif

package vharness

import (
	"fmt"
	"strings"

	"github.com/douban/gobeansdb/store"
	"github.com/douban/gobeansdb/vshim/vsched"
)

func cfgSched(name string) *store.VerifCfg {
	return &store.VerifCfg{Name: name, NumBucket: 1, TreeHeight: 3, DataFileMax: 512, SplitCap: 1024, BufIOCap: 4096,
		BodyMax: 64 << 10, BodyInC: 4096, MaxReq: 3, Hash: hashAB}
}

func val(t, i int, key string, n int) string {
	s := fmt.Sprintf("<%s@t%d.%d>", key, t, i)
	if n > len(s) {
		s += strings.Repeat("z", n-len(s))
	}
	return s
}

// stdRun builds the common scenario body: setup, threads, C04 history check, final state, optional reopen.
func stdRun(setup func(m *Machine, rec *Recorder), threads func(m *Machine, rec *Recorder) []func(), reopen bool, relaxGC bool) func(sc *Scenario, s *vsched.Sched) (*Mismatch, string) {
	return func(sc *Scenario, s *vsched.Sched) (*Mismatch, string) {
		m := NewMachine(s, sc.Cfg, nil)
		defer m.Exit()
		rec := &Recorder{st: m.St}
		if setup != nil {
			setup(m, rec)
		}
		if keepPendingOnce {
			keepPendingOnce = false // background work spawned by the setup takes part in the exploration
		} else {
			s.Drain()
		}
		Tick()
		s.Parallel(threads(m, rec)...)
		obs := obsString(rec.Ops)
		if mm := CheckHistory(rec.Ops, relaxGC); mm != nil {
			return mm, obs
		}
		if mm := CheckFinal(m.St, rec.Ops, "final"); mm != nil {
			return mm, obs
		}
		if reopen {
			m.St.Close()
			m.Exit()
			if err := m.Open(); err != nil {
				return &Mismatch{Op: "reopen", Where: "open", Want: "opens", Got: err.Error(), Class: "open-error"}, obs
			}
			s.Drain()
			if mm := CheckFinal(m.St, rec.Ops, "reopen"); mm != nil {
				return mm, obs
			}
		}
		return nil, obs
	}
}

var keepPendingOnce bool

func c04Scenarios() []*Scenario { return c04ScenariosTier("quick") }

func c04ScenariosTier(tier string) []*Scenario {
	var out []*Scenario
	add := func(name string, cfg *store.VerifCfg, setup func(m *Machine, rec *Recorder), threads func(m *Machine, rec *Recorder) []func(), reopen bool) {
		cfg.Name = name
		out = append(out, &Scenario{Property: "C04", Name: name, Cfg: cfg, Run: stdRun(setup, threads, reopen, false)})
	}
	// S1: two writers and a reader on one key, empty store
	add("S1-2writers-1reader", cfgSched(""), nil, func(m *Machine, rec *Recorder) []func() {
		return []func(){
			func() { rec.Set(1, "a", val(1, 0, "a", 0)) },
			func() { rec.Set(2, "a", val(2, 0, "a", 0)) },
			func() { rec.Get(3, "a") },
		}
	}, false)
	// S2: key already on disk; set / delete / two reads
	add("S2-set-del-read-flushed", cfgSched(""), func(m *Machine, rec *Recorder) {
		rec.Set(0, "a", val(0, 0, "a", 0))
		m.St.VerifFlush(true)
	}, func(m *Machine, rec *Recorder) []func() {
		return []func(){
			func() { rec.Set(1, "a", val(1, 0, "a", 0)) },
			func() { rec.Del(2, "a") },
			func() { rec.Get(3, "a"); rec.Get(3, "a") },
		}
	}, false)
	// S3: C-allocated value; writer vs forced flush (detach + free) vs reader (copy from buffer / read from file)
	c3 := cfgSched("")
	c3.BodyInC = 64
	add("S3-cvalue-flush-read", c3, func(m *Machine, rec *Recorder) {
		rec.Set(0, "a", val(0, 0, "a", 200))
	}, func(m *Machine, rec *Recorder) []func() {
		return []func(){
			func() { rec.Set(1, "a", val(1, 0, "a", 200)) },
			func() { m.St.VerifFlush(true) },
			func() { rec.Get(3, "a") },
		}
	}, true)
	// S4: rotation: the set that does not fit spawns the flush of the previous file; periodic flusher; reader of all keys
	add("S4-rotation-flusher-reader", cfgSched(""), func(m *Machine, rec *Recorder) {
		rec.Set(0, "a", val(0, 0, "a", 0))
		rec.Set(0, "b", val(0, 1, "b", 0))
	}, func(m *Machine, rec *Recorder) []func() {
		return []func(){
			func() { rec.Set(1, "c", val(1, 0, "c", 0)) },
			func() { m.St.VerifFlush(false) },
			func() { rec.Get(3, "a"); rec.Get(3, "b"); rec.Get(3, "c") },
		}
	}, true)
	// S5: hint split rotation + dumper + reader, then exit and reopen
	c5 := cfgSched("")
	c5.SplitCap = 2
	add("S5-splitrotate-dumper-reader", c5, func(m *Machine, rec *Recorder) {
		rec.Set(0, "a", val(0, 0, "a", 0))
		rec.Set(0, "b", val(0, 1, "b", 0))
	}, func(m *Machine, rec *Recorder) []func() {
		return []func(){
			func() { rec.Set(1, "a", val(1, 0, "a", 0)) },
			func() { func() { m.St.VerifLimitDumper(m.St.VerifNewHead(0) + 1); m.St.VerifDump() }() },
			func() { rec.Get(3, "a") },
		}
	}, true)
	// S6: two buckets, one flusher walking both
	c6 := &store.VerifCfg{NumBucket: 16, Served: []int{0xa, 0x3}, TreeHeight: 2, DataFileMax: 512, SplitCap: 1024, BufIOCap: 4096,
		BodyMax: 64 << 10, BodyInC: 4096, MaxReq: 3, Hash: hashAB}
	add("S6-two-buckets-flusher", c6, nil, func(m *Machine, rec *Recorder) []func() {
		return []func(){
			func() { rec.Set(1, "a", val(1, 0, "a", 0)); rec.Get(1, "c") },
			func() { rec.Set(2, "c", val(2, 0, "c", 0)); rec.Get(2, "a") },
			func() { m.St.VerifFlush(true) },
		}
	}, true)
	{
		// S7 (thorough only): two operations per writer: set,set vs delete,set vs two reads (longer histories per thread)
		if tier != "quick" {
			add("S7-2ops-per-thread", cfgSched(""), func(m *Machine, rec *Recorder) {
				rec.Set(0, "a", val(0, 0, "a", 0))
			}, func(m *Machine, rec *Recorder) []func() {
				return []func(){
					func() { rec.Set(1, "a", val(1, 0, "a", 0)); rec.Set(1, "a", val(1, 1, "a", 0)) },
					func() { rec.Del(2, "a"); rec.Set(2, "a", val(2, 1, "a", 0)) },
					func() { rec.Get(3, "a"); rec.Get(3, "a") },
				}
			}, true)
		}
		// S8: two writers whose records both need the rotation (only one more fits): rotation + spawned flush x2
		add("S8-two-writers-at-rotation", cfgSched(""), func(m *Machine, rec *Recorder) {
			rec.Set(0, "a", val(0, 0, "a", 0))
		}, func(m *Machine, rec *Recorder) []func() {
			return []func(){
				func() { rec.Set(1, "b", val(1, 0, "b", 0)) },
				func() { rec.Set(2, "c", val(2, 0, "c", 0)) },
				func() { rec.Get(3, "a"); rec.Get(3, "b"); rec.Get(3, "c") },
			}
		}, true)
		// S9: a store that was restarted (tree loaded, older chunks' hints swept by the post-open goroutine) vs writer vs reader
		add("S9-after-restart-sweep", cfgSched(""), func(m *Machine, rec *Recorder) {
			rec.Set(0, "a", val(0, 0, "a", 0))
			rec.Set(0, "b", val(0, 1, "b", 0))
			rec.Set(0, "c", val(0, 2, "c", 0))
			m.S.Drain()
			m.St.Close()
			m.Exit()
			m.Open() // the sweep goroutine of the new process stays pending and takes part in the exploration
			rec.st = m.St
			keepPendingOnce = true
		}, func(m *Machine, rec *Recorder) []func() {
			return []func(){
				func() { rec.Set(1, "a", val(1, 0, "a", 0)) },
				func() { rec.Get(3, "a"); rec.Get(3, "b") },
			}
		}, true)
	}
	return out
}

func runScenarios(job *Job, r *Report, scs []*Scenario, bounds []int, relBound int) {
	for _, sc := range scs {
		if job.Part != "" && job.Part != sc.Name {
			continue
		}
		// iterative bounding: each bound is a complete exploration of all schedules with at most that many preemptions
		b := bounds[len(bounds)-1]
		if sc.Heavy && b > 1 {
			b--
		}
		sc.ExploreSchedules(r, job, b, false)
		if relBound >= 0 {
			sc.ExploreSchedules(r, job, relBound, true)
		}
	}
}

func C04(job *Job, r *Report) {
	r.Level = "model_checking"
	r.Rule = "stateless model checking of the real store under a controlled cooperative scheduler: for each of 8 scenarios (thorough: 9, adding two operations per thread) (2-4 threads on 1-3 keys forced into one leaf/file: writers+reader; set/delete/read of a flushed key; C-allocated value vs forced flush vs reader; data-file rotation with spawned flush + periodic flusher + reader; hint-split rotation + dumper + reader + reopen; two buckets + flusher; two writers meeting at the rotation; a restarted store whose post-open hint sweep is still pending vs writer vs reader) EVERY interleaving at lock acquisitions, file-system calls, goroutine spawns and waits with at most N preemptions (quick 2, thorough 3; non-preempting switches unbounded) is executed, plus every interleaving with lock releases as additional scheduling points at a smaller bound; each execution's recorded call/return history is checked against the statement (reads return a stored value not older than the latest write acknowledged before they began; accepted writes have distinct versions in real-time order; final state holds the highest version; again after exit+reopen); states = distinct observation vectors (history with logical call/return times)"
	r.Assumptions = []string{"sequentially consistent interleavings at synchronisation/file-system granularity; unsynchronised accesses are covered by the separate free-running -race pass only", "cgo calls atomic", "concurrent incr excluded (as the property says)"}
	bound, rel := 2, 1
	if job.Tier != "quick" {
		bound, rel = 3, 2
	}
	runScenarios(job, r, c04ScenariosTier(job.Tier), []int{bound}, rel)
	r.Bounds["preemption_bound_completed"] = bound
}
