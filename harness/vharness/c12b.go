//go:build verif

package vharness

import (
	"fmt"
	"strings"

	mc "github.com/douban/gobeansdb/memcache"
	"github.com/douban/gobeansdb/vshim/vsched"
)

// C12 part (b): several connections served concurrently under the controlled scheduler with fewer request tokens than
// connections. The token channel is a blocking scheduling point (send and receive; the instant after a send as well),
// so every hand-over of a token between two connections is explored. At quiescence every token must be back and
// every counter zero; every complete command must have got exactly one syntactically valid reply; a connection
// blocked for ever on the token channel shows up as a deadlock.
func c12bScenarios() []*Scenario {
	var out []*Scenario
	c65 := strings.Repeat("C", 65) // above body_c_str of the protocol configuration: C-allocated
	mk := func(name string, maxReq int, preset []string, streams ...string) {
		c := cfgProto()
		c.Name = name
		c.MaxReq = maxReq
		out = append(out, &Scenario{Property: "C12", Name: name, Cfg: c, Run: func(sc *Scenario, s *vsched.Sched) (*Mismatch, string) {
			m := NewMachine(s, sc.Cfg, nil)
			defer m.Exit()
			Tick()
			for _, p := range preset {
				m.Cmd(p)
			}
			m.St.VerifFlush(true)
			if !countersZero() {
				return &Mismatch{Op: "preset", Where: "counters", Want: "all zero", Got: countersString(), Class: "leak-setup"}, ""
			}
			outs := make([]string, len(streams))
			var fns []func()
			for i, st := range streams {
				i, st := i, st
				fns = append(fns, func() {
					c := &segConn{segs: [][]byte{[]byte(st)}}
					conn := mc.VerifNewConn(c)
					for !conn.VerifClosing() {
						if err := conn.ServeOnce(m.SC, m.Stats); err != nil {
							break
						}
					}
					conn.Close()
					outs[i] = string(c.out)
				})
			}
			s.Parallel(fns...)
			s.Drain()
			m.St.VerifFlush(true)
			s.Drain()
			obs := strings.Join(outs, " | ") + " || " + countersString()
			for i, o := range outs {
				reps, ok, rest := ParseReplies(o)
				want := strings.Count(streams[i], "\r\n") - strings.Count(streams[i], "set ") // one reply per command; a set has a body line
				if !ok {
					return &Mismatch{Op: fmt.Sprintf("connection %d", i), Where: "framing", Want: "syntactically valid replies", Got: clip(rest), Class: "bad-framing"}, obs
				}
				if len(reps) != want {
					return &Mismatch{Op: fmt.Sprintf("connection %d: %q", i, streams[i]), Where: "replies", Want: fmt.Sprintf("%d replies", want), Got: fmt.Sprintf("%d: %s", len(reps), clip(o)), Class: "reply-count"}, obs
				}
			}
			if !countersZero() {
				return &Mismatch{Op: name, Where: "counters at quiescence", Want: "tokens full, get/set/flush/alloc all zero", Got: countersString(), Class: "leak-concurrent"}, obs
			}
			// one more request on a fresh connection: it needs a token
			if free, _ := mc.VerifTokensFree(); free == 0 {
				return &Mismatch{Op: name, Where: "tokens", Want: "a free request token", Got: countersString(), Class: "wedged-no-token"}, obs
			}
			if got := m.Cmd("get p\r\n"); !strings.HasSuffix(got, "END\r\n") {
				return &Mismatch{Op: name, Where: "probe", Want: "a reply", Got: clip(got), Class: "probe"}, obs
			}
			return nil, obs
		}})
	}
	setA := fmtSet("a", 0, 0, []byte("abc"))
	setB := fmtSet("b", 0, 0, []byte(c65))
	mk("K1-two-gets-one-token", 1, []string{setA, setB}, "get a\r\n", "get b\r\n")
	mk("K2-three-gets-one-token", 1, []string{setA, setB}, "get a\r\n", "get b\r\n", "get a b\r\n")
	mk("K3-set-get-delete-two-tokens", 2, []string{setB}, fmtSet("b", 0, 0, []byte(c65+"2")), "get b\r\nget b\r\n", "delete b\r\n")
	mk("K4-incr-get-set-one-token", 1, []string{fmtSet("a", 4, 0, []byte("10"))}, "incr a 1\r\n", "get a\r\n", fmtSet("a", 0, 0, []byte(c65)))
	return out
}
