//go:build verif

package vharness

import (
	"encoding/binary"
	"fmt"
	"hash/crc32"
)

// ScanRec is one record found by the harness's own decoder (written from the
// documented beansdb layout; shares no code with store/datafile.go).
type ScanRec struct {
	Off   int
	Size  int // padded size
	TS    uint32
	Flag  uint32
	Ver   int32
	Key   string
	Body  []byte
	CRCOK bool
}

// ScanFile decodes a data file. It stops at the first offset where no
// complete record fits; tail reports what is left there:
// "" (clean end), "partial" (incomplete record), "unaligned".
func ScanFile(data []byte) (recs []ScanRec, tail string) {
	off := 0
	for off < len(data) {
		if len(data)-off < 24 {
			return recs, "partial"
		}
		h := data[off : off+24]
		crc := binary.LittleEndian.Uint32(h[0:4])
		ksz := int(binary.LittleEndian.Uint32(h[16:20]))
		vsz := int(binary.LittleEndian.Uint32(h[20:24]))
		if ksz <= 0 || ksz > 250 || vsz < 0 || vsz > 100<<20 {
			return recs, fmt.Sprintf("badsize@%d", off)
		}
		real := 24 + ksz + vsz
		padded := (real + 255) &^ 255
		if off+real > len(data) {
			return recs, "partial"
		}
		r := ScanRec{Off: off, Size: padded,
			TS:   binary.LittleEndian.Uint32(h[4:8]),
			Flag: binary.LittleEndian.Uint32(h[8:12]),
			Ver:  int32(binary.LittleEndian.Uint32(h[12:16])),
			Key:  string(data[off+24 : off+24+ksz]),
			Body: data[off+24+ksz : off+real],
		}
		r.CRCOK = crc32.ChecksumIEEE(data[off+4:off+real]) == crc
		recs = append(recs, r)
		if off+padded > len(data) {
			return recs, "partial"
		}
		off += padded
	}
	if len(data)%256 != 0 {
		return recs, "unaligned"
	}
	return recs, ""
}
