//go:build verif

package vharness

import (
	"fmt"
	"strconv"
	"strings"

	"github.com/douban/gobeansdb/store"
	"github.com/douban/gobeansdb/vshim/vtime"
)

// MkValue builds the bytes of a value of class cls for key key; id makes it
// unique so that a read identifies which write it returns.
func MkValue(cls string, key string, id int) []byte {
	tag := fmt.Sprintf("<%s#%d>", key, id)
	fill := func(n int, gen func(i int) byte) []byte {
		b := make([]byte, n)
		copy(b, tag)
		for i := len(tag); i < n; i++ {
			b[i] = gen(i)
		}
		if n < len(tag) {
			copy(b, tag[len(tag)-n:])
		}
		return b
	}
	text := "the quick brown fox jumps over the lazy dog. "
	txt := func(i int) byte { return text[i%len(text)] }
	lcgState := uint32(id*2654435761 + 12345)
	rnd := func(i int) byte {
		lcgState = lcgState*1664525 + 1013904223
		return byte(lcgState >> 24)
	}
	recBody := func(rec int) int { return rec - 24 - len(key) }
	switch {
	case cls == "vh0":
		// a value whose 16-bit value hash is 0 (the value hash of a delete request)
		if b, ok := collideCache["vh0:"+key]; ok {
			return b
		}
		for i := 0; i < 1<<24; i++ {
			b := []byte(fmt.Sprintf("<%s#vhash-zero-%06x>", key, i))
			if store.Getvhash(b) == 0 {
				collideCache["vh0:"+key] = b
				return b
			}
		}
		panic("no value with vhash 0 found")
	case cls == "hA" || cls == "hB":
		// two distinct values per key with the same 16-bit value hash (and length)
		a := []byte("<" + key + "#collide-A-000000>")
		if cls == "hA" {
			return a
		}
		if b, ok := collideCache[key]; ok {
			return b
		}
		want := store.Getvhash(a)
		for i := 0; i < 1<<24; i++ {
			b := []byte(fmt.Sprintf("<%s#collide-B-%06x>", key, i))
			if store.Getvhash(b) == want {
				collideCache[key] = b
				return b
			}
		}
		panic("no vhash collision found")
	case cls == "s":
		return []byte(tag)
	case cls == "e":
		return []byte{}
	case cls == "n": // numeric, for incr
		return []byte(strconv.Itoa(100 + id))
	case cls == "r256": // record exactly one block
		return fill(recBody(256), txt)
	case cls == "r257": // one byte over: two blocks, compression probed
		return fill(recBody(257), txt)
	case cls == "c300":
		return fill(300, txt)
	case cls == "x300": // incompressible
		return fill(300, rnd)
	case cls == "wave": // sniffed as audio/wave: never compressed
		b := fill(300, txt)
		copy(b, "RIFF\x00\x00\x00\x00WAVEfmt ")
		copy(b[16:], tag)
		return b
	case cls == "bin": // CR LF NUL inside
		return []byte(tag + "\r\n\x00\r\nEND\r\n")
	case strings.HasPrefix(cls, "c"): // compressible of given size
		n, _ := strconv.Atoi(cls[1:])
		return fill(n, txt)
	case strings.HasPrefix(cls, "x"):
		n, _ := strconv.Atoi(cls[1:])
		return fill(n, rnd)
	case strings.HasPrefix(cls, "m"): // mixed: compressible head, random tail
		n, _ := strconv.Atoi(cls[1:])
		return fill(n, func(i int) byte {
			if i < n/2 {
				return txt(i)
			}
			return rnd(i)
		})
	}
	panic("unknown value class " + cls)
}

var collideCache = map[string][]byte{}

// Mismatch describes a disagreement between implementation and model.
type Mismatch struct {
	Step  int    `json:"step"`
	Op    string `json:"op"`
	Where string `json:"where"` // reply, get, meta, xmeta, memonly, multiget, ...
	Key   string `json:"key,omitempty"`
	Want  string `json:"want"`
	Got   string `json:"got"`
	Class string `json:"class"` // symptom class used in signatures
}

func (mm *Mismatch) String() string {
	return fmt.Sprintf("step %d %s: %s(%s) want %q got %q [%s]", mm.Step, mm.Op, mm.Where, mm.Key, clip(mm.Want), clip(mm.Got), mm.Class)
}

func clip(s string) string {
	if len(s) > 120 {
		return s[:60] + "..." + s[len(s)-40:] + fmt.Sprintf("(%d bytes)", len(s))
	}
	return s
}

func nowTS() uint32 { return uint32(vtime.Now().Unix()) }

// StepMutator applies a mutating op to both machine and model and compares
// the replies. Process-level ops (flush, bg, restart...) are handled by the
// caller-specific explorers via Machine methods; here only set/del/incr.
func StepMutator(m *Machine, md *Model, o Op, step int) *Mismatch {
	Tick()
	ts := nowTS()
	switch o.K {
	case "set", "setsame":
		var body []byte
		flag := o.Flag
		if o.K == "setsame" {
			old := md.M[o.Key]
			if old == nil || old.Ver < 0 {
				body = MkValue("s", o.Key, md.NextID)
				md.NextID++
			} else {
				body = old.Body
				flag = old.Flag
				if o.Flag != 0 {
					flag = o.Flag
				}
			}
		} else {
			body = MkValue(o.V, o.Key, md.NextID)
			md.NextID++
			if o.V == "n" {
				flag = store.FLAG_INCR
			}
		}
		rev := md.ConcreteRev(o)
		got := m.Cmd(fmtSet(o.Key, flag, rev, body))
		want := md.Set(o.Key, body, flag, rev, ts) + "\r\n"
		if got != want {
			return &Mismatch{Step: step, Op: o.String(), Where: "reply", Key: o.Key, Want: want, Got: got, Class: "reply"}
		}
	case "del":
		got := m.Cmd("delete " + o.Key + "\r\n")
		want := md.Delete(o.Key, ts) + "\r\n"
		if got != want {
			return &Mismatch{Step: step, Op: o.String(), Where: "reply", Key: o.Key, Want: want, Got: got, Class: "reply"}
		}
	case "incr":
		n := 1
		if len(o.A) > 0 {
			n = o.A[0]
		}
		got := m.Cmd(fmt.Sprintf("incr %s %d\r\n", o.Key, n))
		want := md.Incr(o.Key, n, ts) + "\r\n"
		if got != want {
			return &Mismatch{Step: step, Op: o.String(), Where: "reply", Key: o.Key, Want: want, Got: got, Class: "reply"}
		}
	default:
		panic("StepMutator: " + o.K)
	}
	return nil
}

// BatteryOpts tunes what the observer battery compares.
type BatteryOpts struct {
	TombVerExact bool // compare versions of tombstones exactly (no restart happened)
	SkipVer      bool // do not compare versions at all
}

// Battery reads every key in keys through every read path and compares with
// the model. It returns the first mismatch.
func Battery(m *Machine, md *Model, keys []string, step int, opt BatteryOpts) *Mismatch {
	mk := func(where, key, want, got, class string) *Mismatch {
		return &Mismatch{Step: step, Op: "battery", Where: where, Key: key, Want: want, Got: got, Class: class}
	}
	verOK := func(v *MVal, got int32) bool {
		if opt.SkipVer || v.VerFree {
			return true
		}
		if got == v.Ver {
			return true
		}
		for _, a := range v.VerAlt {
			if a == got {
				return true
			}
		}
		return false
	}
	for _, k := range keys {
		v := md.M[k]
		// 1. plain get
		got := m.Cmd("get " + k + "\r\n")
		want := "END\r\n"
		if v.Live() {
			want = fmt.Sprintf("VALUE %s %d %d\r\n%s\r\nEND\r\n", k, v.Flag, len(v.Body), v.Body)
		}
		if got != want {
			cls := "get-wrong"
			pg := ParseGetReply(got)
			switch {
			case !pg.OK:
				cls = "get-error"
			case v.Live() && len(pg.Items) == 0:
				cls = "get-lost"
			case !v.Live() && len(pg.Items) > 0:
				cls = "get-resurrected"
			case v.Live() && pg.Items[k].Body != string(v.Body):
				cls = "get-wrongvalue"
			case v.Live() && pg.Items[k].Flag != int(v.Flag):
				cls = "get-wrongflag"
			}
			return mk("get", k, want, got, cls)
		}
		// 2. ?key and ??key
		for _, pre := range []string{"?", "??"} {
			if len(pre+k) > 250 {
				continue // the prefixed key would exceed the protocol's key length: not a command a client can send
			}
			got = m.Cmd("get " + pre + k + "\r\n")
			pg := ParseGetReply(got)
			if !pg.OK {
				return mk("meta"+pre, k, "VALUE/END", got, "meta-error")
			}
			it, found := pg.Items[pre+k]
			if v == nil {
				if found {
					return mk("meta"+pre, k, "miss", got, "meta-unknown-key")
				}
				continue
			}
			if !found {
				if v.Ver < 0 && !opt.TombVerExact {
					continue // tombstone forgotten by a rebuilt tree
				}
				return mk("meta"+pre, k, "hit", got, "meta-miss")
			}
			f := strings.Split(it.Body, " ")
			nf := 5
			if pre == "??" {
				nf = 7
			}
			if len(f) != nf || it.Flag != 0 {
				return mk("meta"+pre, k, fmt.Sprintf("%d fields", nf), got, "meta-format")
			}
			ver, _ := strconv.Atoi(f[0])
			vh, _ := strconv.Atoi(f[1])
			fl, _ := strconv.Atoi(f[2])
			ln, _ := strconv.Atoi(f[3])
			ts, _ := strconv.Atoi(f[4])
			if v.Ver < 0 {
				if ver >= 0 {
					return mk("meta"+pre, k, "negative version", got, "meta-resurrected")
				}
				if opt.TombVerExact && !verOK(v, int32(ver)) {
					return mk("meta"+pre, k, fmt.Sprint(v.Ver), got, "meta-tombver")
				}
				if vh != 0 || ln != 0 {
					return mk("meta"+pre, k, "0 vhash 0 len", got, "meta-tombfields")
				}
				continue
			}
			wvh := int(store.Getvhash(v.Body))
			if ver < 0 {
				return mk("meta"+pre, k, "live", got, "meta-deleted")
			}
			if !verOK(v, int32(ver)) {
				return mk("meta"+pre, k, fmt.Sprintf("ver %d alt %v", v.Ver, v.VerAlt), got, "meta-ver")
			}
			if vh != wvh || fl != int(v.Flag) || ln != len(v.Body) {
				return mk("meta"+pre, k, fmt.Sprintf("vhash %d flag %d len %d", wvh, v.Flag, len(v.Body)), got, "meta-fields")
			}
			if uint32(ts) != v.TS {
				return mk("meta"+pre, k, fmt.Sprintf("ts %d", v.TS), got, "meta-ts")
			}
			if pre == "??" {
				ck, e1 := strconv.Atoi(f[5])
				off, e2 := strconv.Atoi(f[6])
				if e1 != nil || e2 != nil || ck < 0 || ck >= store.MAX_NUM_CHUNK || off < 0 || off%256 != 0 {
					return mk("meta"+pre, k, "valid position", got, "meta-pos")
				}
			}
		}
		// 3. memory-only lookup
		ki := &store.KeyInfo{StringKey: k, Key: []byte(k)}
		p, _, err := m.St.Get(ki, true)
		if err != nil {
			return mk("memonly", k, "no error", err.Error(), "memonly-error")
		}
		switch {
		case v == nil:
			if p != nil {
				return mk("memonly", k, "nil", fmt.Sprint(p.Ver), "memonly-unknown-key")
			}
		case p == nil:
			if !(v.Ver < 0 && !opt.TombVerExact) {
				return mk("memonly", k, fmt.Sprint(v.Ver), "nil", "memonly-miss")
			}
		case v.Ver < 0:
			if p.Ver >= 0 {
				return mk("memonly", k, fmt.Sprint(v.Ver), fmt.Sprint(p.Ver), "memonly-resurrected")
			}
		default:
			if p.Ver < 0 {
				return mk("memonly", k, fmt.Sprint(v.Ver), fmt.Sprint(p.Ver), "memonly-deleted")
			}
			if !verOK(v, p.Ver) {
				return mk("memonly", k, fmt.Sprint(v.Ver), fmt.Sprint(p.Ver), "memonly-ver")
			}
			if !v.VerFree && p.ValueHash != store.Getvhash(v.Body) {
				return mk("memonly", k, fmt.Sprint(store.Getvhash(v.Body)), fmt.Sprint(p.ValueHash), "memonly-vhash")
			}
		}
	}
	// 4. multi-get of all keys (VALUE blocks compared as a set)
	if len(keys) > 1 {
		got := m.Cmd("get " + strings.Join(keys, " ") + "\r\n")
		pg := ParseGetReply(got)
		if !pg.OK {
			return mk("multiget", "", "VALUE*/END", got, "multiget-error")
		}
		for _, k := range keys {
			v := md.M[k]
			it, found := pg.Items[k]
			if v.Live() != found {
				return mk("multiget", k, fmt.Sprint(v.Live()), got, "multiget-presence")
			}
			if found && (it.Body != string(v.Body) || it.Flag != int(v.Flag)) {
				return mk("multiget", k, string(v.Body), got, "multiget-value")
			}
		}
		if len(pg.Items) > len(keys) {
			return mk("multiget", "", "only requested keys", got, "multiget-extra")
		}
	}
	return nil
}
