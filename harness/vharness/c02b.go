//go:build verif

package vharness

import (
	"strings"

	"github.com/douban/gobeansdb/vshim/vsched"
)

// C02 part (b): shutdown racing with the asynchronous flush that follows a
// data-file rotation, the periodic flusher and the hint dumper. The process
// exits as soon as Close returns; every acknowledged write must be readable
// after the reopen.
func c02bScenarios() []*Scenario {
	var out []*Scenario
	mk := func(name string, splitCap int64, extra func(m *Machine, rec *Recorder) []func(), writer func(m *Machine, rec *Recorder)) {
		c := cfgSched(name)
		c.SplitCap = splitCap
		out = append(out, &Scenario{Property: "C02", Name: name, Cfg: c, Heavy: strings.HasPrefix(name, "B3") || strings.HasPrefix(name, "B4"), Run: func(sc *Scenario, s *vsched.Sched) (*Mismatch, string) {
			m := NewMachine(s, sc.Cfg, nil)
			defer m.Exit()
			rec := &Recorder{st: m.St}
			rec.Set(0, "a", val(0, 0, "a", 0))
			rec.Set(0, "b", val(0, 1, "b", 0))
			Tick()
			threads := []func(){func() {
				writer(m, rec)
				m.St.Close()
				s.Freeze() // the process exits when Close has returned
			}}
			threads = append(threads, extra(m, rec)...)
			s.Parallel(threads...)
			obs := obsString(rec.Ops)
			m.Exit()
			if err := m.Open(); err != nil {
				return &Mismatch{Op: "reopen", Where: "open", Want: "opens", Got: err.Error(), Class: "open-error"}, obs
			}
			s.Drain()
			if mm := CheckFinal(m.St, rec.Ops, "reopen"); mm != nil {
				return mm, obs
			}
			return nil, obs
		}})
	}
	rot := func(m *Machine, rec *Recorder) { rec.Set(1, "c", val(1, 0, "c", 0)) } // does not fit: rotates, spawns the flush of file 0
	rot2 := func(m *Machine, rec *Recorder) {
		rec.Set(1, "c", val(1, 0, "c", 0))
		rec.Set(1, "a", val(1, 1, "a", 0))
		rec.Set(1, "b", val(1, 2, "b", 0)) // second rotation
	}
	none := func(m *Machine, rec *Recorder) []func() { return nil }
	flusher := func(m *Machine, rec *Recorder) []func() { return []func(){func() { m.St.VerifFlush(false) }} }
	both := func(m *Machine, rec *Recorder) []func() {
		return []func(){func() { m.St.VerifFlush(false) }, func() { m.St.VerifLimitDumper(m.St.VerifNewHead(0) + 1); m.St.VerifDump() }}
	}
	mk("B1-rotate-close-exit", 1024, none, rot)
	mk("B2-rotate-close-exit-flusher", 1024, flusher, rot)
	mk("B3-rotate-close-exit-flusher-dumper", 2, both, rot)
	mk("B4-two-rotations-close-exit-flusher", 2, flusher, rot2)
	// B5: no rotation at all: a write into the file that the flusher is writing out right now, then Close and exit;
	// the flush decides what it writes before the new record arrives, and Close trusts the buffered-bytes counter
	c := cfgSched("B5-set-during-flush-close-exit")
	out = append(out, &Scenario{Property: "C02", Name: c.Name, Cfg: c, Run: func(sc *Scenario, s *vsched.Sched) (*Mismatch, string) {
		m := NewMachine(s, sc.Cfg, nil)
		defer m.Exit()
		rec := &Recorder{st: m.St}
		rec.Set(0, "a", val(0, 0, "a", 0))
		Tick()
		s.Parallel(func() {
			rec.Set(1, "b", val(1, 0, "b", 0)) // fits into file 0
			m.St.Close()
			s.Freeze()
		}, func() { m.St.VerifFlush(true) })
		obs := obsString(rec.Ops)
		m.Exit()
		if err := m.Open(); err != nil {
			return &Mismatch{Op: "reopen", Where: "open", Want: "opens", Got: err.Error(), Class: "open-error"}, obs
		}
		s.Drain()
		if mm := CheckFinal(m.St, rec.Ops, "reopen"); mm != nil {
			return mm, obs
		}
		return nil, obs
	}})
	return out
}
