//go:build verif

package vharness

import (
	"bytes"
	"fmt"
	"sort"
	"strings"

	"github.com/douban/gobeansdb/quicklz"
	"github.com/douban/gobeansdb/store"
	"github.com/douban/gobeansdb/vshim/vos"
	"github.com/douban/gobeansdb/vshim/vsched"
)

func cfgCrash() *store.VerifCfg {
	return &store.VerifCfg{Name: "crash-f512-s2-io256", NumBucket: 1, TreeHeight: 3, DataFileMax: 512, SplitCap: 2, BufIOCap: 256,
		BodyMax: 64 << 10, BodyInC: 4096, MaxReq: 3, Hash: hashAB}
}

// durable describes what the harness's own decoder finds in a crash state.
type durable struct {
	last      map[string]*ScanRec   // key -> last complete CRC-valid record (by chunk, offset)
	all       map[string][]*ScanRec // key -> all complete records, oldest first
	tornTail  bool                  // some data file ends in an incomplete record or is not 256-aligned
	tornFiles []string
}

func scanDurable(fs *vos.FS, home string) *durable {
	d := &durable{last: map[string]*ScanRec{}, all: map[string][]*ScanRec{}}
	var files []string
	for _, p := range fs.Paths() {
		if strings.HasPrefix(p, home+"/") && strings.HasSuffix(p, ".data") && !strings.Contains(p[len(home)+1:], "/") {
			files = append(files, p)
		}
	}
	sort.Strings(files)
	for _, p := range files {
		data, _ := fs.ReadFileRaw(p)
		recs, tail := ScanFile(data)
		if tail != "" {
			d.tornTail = true
			d.tornFiles = append(d.tornFiles, p[len(home)+1:]+":"+tail)
		}
		for i := range recs {
			rc := recs[i]
			if !rc.CRCOK {
				d.tornTail = true
				continue
			}
			d.all[rc.Key] = append(d.all[rc.Key], &rc)
			d.last[rc.Key] = &rc
		}
	}
	return d
}

func recValue(rc *ScanRec) ([]byte, uint32) {
	body := rc.Body
	if rc.Flag&store.FLAG_COMPRESS != 0 {
		if db, err := quicklz.DecompressSafe(rc.Body); err == nil {
			body = db
		}
	}
	return body, rc.Flag &^ store.FLAG_COMPRESS
}

// recoverAndCheck opens a fresh process on st and checks every key against
// the durable content of st itself. It returns a mismatch or nil, and whether
// the store refused to start.
// allowedVal is one acceptable answer for a key after recovery.
type allowedVal struct {
	live bool
	body []byte
	flag uint32
}

func recoverAndCheck(cfg *store.VerifCfg, st *vos.FS, keys []string, expect func(k string, d *durable) []allowedVal, desc string) (*Mismatch, bool) {
	home := cfg.Home
	if home == "" {
		home = "/db"
	}
	d := scanDurable(st, home)
	var mm *Mismatch
	refused := ""
	res := vsched.Run(vsched.Opts{}, func(s *vsched.Sched) {
		m := &Machine{Cfg: cfg, S: s, FS: st}
		vos.Attach(st)
		if err := m.Open(); err != nil {
			refused = "open error: " + err.Error()
			return
		}
		defer m.Exit()
		s.Drain()
		for _, k := range keys {
			allowed := expect(k, d)
			got := m.Cmd("get " + k + "\r\n")
			okAny := false
			want := ""
			live := false
			for i, a := range allowed {
				w := "END\r\n"
				if a.live {
					w = fmt.Sprintf("VALUE %s %d %d\r\n%s\r\nEND\r\n", k, a.flag, len(a.body), a.body)
				}
				if i == 0 {
					want = w // the durable one
					live = a.live
				}
				if got == w {
					okAny = true
				}
			}
			if okAny {
				continue
			}
			if len(allowed) > 1 {
				want += fmt.Sprintf(" (or one of %d later writes)", len(allowed)-1)
			}
			cls := "crash-wrong"
			pg := ParseGetReply(got)
			switch {
			case !pg.OK && !live && strings.HasPrefix(got, "SERVER_ERROR"):
				// an explicit error for a key that has no durable live record is not wrong data
				crashStats["tolerated_error_for_nondurable_key"]++
				continue
			case !pg.OK:
				cls = "crash-get-error"
			case live && len(pg.Items) == 0:
				cls = "crash-lost-durable"
			case !live && len(pg.Items) > 0:
				cls = "crash-resurrected"
			default:
				cls = "crash-wrong-value"
				for _, rc := range d.all[k] {
					b, _ := recValue(rc)
					if bytes.Equal(b, []byte(pg.Items[k].Body)) && rc.Ver > 0 {
						cls = "crash-stale-value"
					}
				}
			}
			mm = &Mismatch{Op: desc, Where: "get after recovery", Key: k, Want: want, Got: got, Class: cls}
			return
		}
	})
	if res.Aborted == "fatal" {
		refused = "fatal: " + res.Msg
	} else if res.Aborted != "" {
		return &Mismatch{Op: desc, Where: "recovery", Want: "recovers", Got: res.Aborted + ": " + res.Msg + "\n" + res.Stacks, Class: "crash-recovery-" + res.Aborted}, false
	}
	if refused != "" {
		if !d.tornTail {
			return &Mismatch{Op: desc, Where: "recovery", Want: "starts (no data file has a torn tail)", Got: refused, Class: "crash-refused-without-torn-tail"}, true
		}
		return nil, true
	}
	return mm, false
}

// keyWrite is one accepted write of a key in the history (in order).
type keyWrite struct {
	ver  int32
	body []byte
	flag uint32
}

// secondLife: after a successful recovery from a crash state the store gets a second life: a fresh process writes a new
// value for every key, flushes, and is killed again (no Close); a third process must then serve exactly those values
// (they were acknowledged and flushed, nothing newer exists). st is the directory as the recovering process left it.
func secondLife(cfg *store.VerifCfg, st *vos.FS, keys []string, desc string) *Mismatch {
	var mm *Mismatch
	vals := map[string]string{}
	res := vsched.Run(vsched.Opts{}, func(s *vsched.Sched) {
		m := &Machine{Cfg: cfg, S: s, FS: st}
		vos.Attach(st)
		if err := m.Open(); err != nil {
			mm = &Mismatch{Op: desc, Where: "second life: open", Want: "opens (it did a moment ago)", Got: err.Error(), Class: "crash2-refused"}
			return
		}
		defer m.Exit()
		s.Drain()
		for i, k := range keys {
			Tick()
			v := fmt.Sprintf("second-life-%s-%d", k, i)
			vals[k] = v
			if got := m.Cmd(fmtSet(k, 0, 0, []byte(v))); got != "STORED\r\n" {
				mm = &Mismatch{Op: desc, Where: "second life: set " + k, Want: "STORED", Got: got, Class: "crash2-set"}
				return
			}
		}
		s.Drain()
		m.St.VerifFlush(true)
		s.Drain()
	})
	if res.Aborted != "" {
		return &Mismatch{Op: desc, Where: "second life", Want: "runs", Got: res.Aborted + ": " + res.Msg, Class: "crash2-" + res.Aborted}
	}
	if mm != nil {
		return mm
	}
	res = vsched.Run(vsched.Opts{}, func(s *vsched.Sched) {
		m := &Machine{Cfg: cfg, S: s, FS: st}
		vos.Attach(st)
		if err := m.Open(); err != nil {
			mm = &Mismatch{Op: desc, Where: "third life: open", Want: "opens", Got: err.Error(), Class: "crash2-refused"}
			return
		}
		defer m.Exit()
		s.Drain()
		for _, k := range keys {
			got := m.Cmd("get " + k + "\r\n")
			want := fmt.Sprintf("VALUE %s 0 %d\r\n%s\r\nEND\r\n", k, len(vals[k]), vals[k])
			if got != want {
				mm = &Mismatch{Op: desc, Where: "third life: get after (kill, write+flush, kill)", Key: k, Want: want, Got: clip(got), Class: "crash2-lost-durable"}
				return
			}
		}
	})
	if res.Aborted != "" {
		return &Mismatch{Op: desc, Where: "third life", Want: "runs", Got: res.Aborted + ": " + res.Msg, Class: "crash2-" + res.Aborted}
	}
	return mm
}

// expectDurableOrLater (C06): the last complete record D of the key on disk, or
// any write of that key issued after D (its effect may survive through index files).
func expectDurableOrLater(writes map[string][]keyWrite) func(k string, d *durable) []allowedVal {
	return func(k string, d *durable) []allowedVal {
		rc := d.last[k]
		ws := writes[k]
		var out []allowedVal
		start := 0
		if rc == nil {
			out = append(out, allowedVal{})
		} else {
			b, f := recValue(rc)
			out = append(out, allowedVal{live: rc.Ver > 0, body: b, flag: f})
			for i, w := range ws {
				if w.ver == rc.Ver && (rc.Ver < 0 || bytes.Equal(w.body, b)) {
					start = i + 1
				}
			}
		}
		for _, w := range ws[start:] {
			out = append(out, allowedVal{live: w.ver > 0, body: w.body, flag: w.flag})
		}
		return out
	}
}

func writesHash(writes map[string][]keyWrite) string {
	var sb strings.Builder
	ks := make([]string, 0, len(writes))
	for k := range writes {
		ks = append(ks, k)
	}
	sort.Strings(ks)
	for _, k := range ks {
		for _, w := range writes[k] {
			fmt.Fprintf(&sb, "%s:%d:%x;", k, w.ver, Hash64(string(w.body)))
		}
	}
	return sb.String()
}

// histories up to this length get the kill / write+flush / kill chain after every whole-mutation crash point
var secondLifeMaxLen = 4

var crashSeen = map[uint64]bool{}
var prefixSeen = map[uint64]bool{}
var crashStats = map[string]int64{}

type crashReplay struct {
	Kind    string    `json:"kind"`
	Check   string    `json:"check"`
	Config  string    `json:"config"`
	History []Op      `json:"history"`
	HistStr string    `json:"history_str"`
	K       int       `json:"crash_after_mutations"`
	Cut     int       `json:"torn_bytes_of_next_write"`
	Mut     string    `json:"next_mutation"`
	Found   *Mismatch `json:"mismatch"`
}

func mutString(m *vos.Mut) string {
	return fmt.Sprintf("%s %s %s off=%d len=%d size=%d", m.Op, m.Path, m.Path2, m.Off, len(m.Data), m.Size)
}

// c06ExecNode: run the history with the mutation log on, then visit every crash state.
func c06ExecNode(x *XSpec, hist []Op, wantDump bool) HistOutcome {
	var out HistOutcome
	var log []vos.Mut
	writes := map[string][]keyWrite{}
	res := vsched.Run(vsched.Opts{}, func(s *vsched.Sched) {
		m := NewMachine(s, x.Cfg, nil)
		defer m.Exit()
		md := NewModel(x.Cfg.CheckVHash)
		for i, o := range hist {
			var mm *Mismatch
			if o.K == "close" {
				m.St.Close()
			} else {
				var before *MVal
				if o.Key != "" {
					before = md.M[o.Key]
				}
				mm = Step(m, md, o, i)
				if o.Key != "" && md.M[o.Key] != before && md.M[o.Key] != nil {
					v := md.M[o.Key]
					writes[o.Key] = append(writes[o.Key], keyWrite{ver: v.Ver, body: v.Body, flag: v.Flag})
				}
			}
			if mm != nil {
				out.MM = mm
				return
			}
		}
		log = m.FS.Log
		if wantDump {
			out.Dump = fmt.Sprintf("%d|%s", len(log), m.FS.Hash())
		}
	})
	out.absorb(res, len(hist))
	if out.MM != nil {
		return out
	}
	if len(hist) > 0 && hist[len(hist)-1].K == "close" {
		out.Dead = true
	}
	base := vos.New()
	wh := writesHash(writes)
	expect := expectDurableOrLater(writes)
	whh := Hash64(wh)
	vos.CrashStatesSkip(base, log, func(k, cut int, ph uint64) bool {
		crashStats["crash_states"]++
		if prefixSeen[ph^whh] {
			crashStats["crash_states_dup"]++
			return true
		}
		prefixSeen[ph^whh] = true
		return false
	}, func(k, cut int, st *vos.FS) bool {
		h := Hash64(st.Hash() + "|" + wh)
		if crashSeen[h] {
			crashStats["crash_states_dup"]++
			return true
		}
		crashSeen[h] = true
		crashStats["recoveries"]++
		if cut >= 0 {
			crashStats["recoveries_torn"]++
		}
		desc := fmt.Sprintf("crash after %d mutations", k)
		mut := ""
		if k < len(log) {
			mut = mutString(&log[k])
			if cut >= 0 {
				desc += fmt.Sprintf(" + %d bytes of [%s]", cut, mut)
			}
		}
		mm, refused := recoverAndCheck(x.Cfg, st, x.Keys, expect, desc)
		if refused {
			crashStats["recoveries_refused"]++
		}
		if mm == nil && !refused && cut < 0 && x.Depth >= 0 && len(hist) <= secondLifeMaxLen {
			// chain: kill, recover, write + flush, kill, recover (only from whole-mutation crash points)
			crashStats["second_lives"]++
			mm = secondLife(x.Cfg, st, x.Keys, desc+", then a second life")
		}
		if mm != nil {
			mm.Step = k
			out.MM = mm
			lastCrash = crashReplay{Kind: "crash", Config: x.Name, K: k, Cut: cut, Mut: mut, Found: mm}
			return false
		}
		return true
	})
	return out
}

var lastCrash crashReplay

func c06Specs(tier string) []*XSpec {
	keys := []string{"a", "b"}
	al := perKey(keys, Op{K: "set", V: "s"})
	al = append(al, Op{K: "set", V: "x300", Key: "a"}, Op{K: "del", Key: "a"}, Op{K: "flush"}, Op{K: "bg"}, Op{K: "dump"}, Op{K: "close"})
	d := 5
	if tier != "quick" {
		d = 6
		al = append(al, Op{K: "set", V: "x300", Key: "b"}, Op{K: "del", Key: "b"}, Op{K: "incr", Key: "a"}, Op{K: "merge"})
	}
	// three keys, 4 records per file, hint splits of 2 items: a split rotates and is dumped inside a chunk
	c3 := cfgK1s()
	c3.Name = "crash-f1024-s2-3keys"
	c3.BufIOCap = 256
	keys3 := []string{"a", "b", "c"}
	al3 := append(perKey(keys3, Op{K: "set", V: "s"}), Op{K: "del", Key: "a"}, Op{K: "flush"}, Op{K: "dump"}, Op{K: "close"})
	return []*XSpec{{Property: "C06", Name: cfgCrash().Name, Cfg: cfgCrash(), Alphabet: al, Depth: d, Keys: keys, ExecNode: c06ExecNode},
		{Property: "C06", Name: c3.Name, Cfg: c3, Alphabet: al3, Depth: d - 1, Keys: keys3, ExecNode: c06ExecNode}}
}

// ---- part (ii): kill points of every schedule (<= 1 preemption) of writer + periodic flusher + hint dumper ----

func c06SchedScenarios(tier string) []*Scenario {
	var out []*Scenario
	mk := func(name string, writer func(rec *Recorder), withDumper bool) {
		c := cfgCrash()
		c.Name = name
		sc := &Scenario{Property: "C06", Name: name, Cfg: c}
		sc.Run = func(sc *Scenario, s *vsched.Sched) (*Mismatch, string) {
			m := NewMachine(s, sc.Cfg, nil)
			defer m.Exit()
			rec := &Recorder{st: m.St}
			rec.Set(0, "a", val(0, 0, "a", 0))
			rec.Set(0, "b", val(0, 1, "b", 0))
			Tick()
			threads := []func(){func() { writer(rec) }, func() { m.St.VerifFlush(false) }}
			if withDumper {
				threads = append(threads, func() { m.St.VerifLimitDumper(m.St.VerifNewHead(0) + 1); m.St.VerifDump() })
			}
			s.Parallel(threads...)
			log := append([]vos.Mut(nil), m.FS.Log...)
			writes := map[string][]keyWrite{}
			ops := append([]RecOp(nil), rec.Ops...)
			sort.Slice(ops, func(i, j int) bool { return abs32i(ops[i].Ver) < abs32i(ops[j].Ver) })
			for _, o := range ops {
				if o.Kind == "set" && o.Err == "" {
					writes[o.Key] = append(writes[o.Key], keyWrite{ver: o.Ver, body: []byte(o.In)})
				} else if o.Kind == "del" && o.Found {
					writes[o.Key] = append(writes[o.Key], keyWrite{ver: o.Ver})
				}
			}
			cfg := sc.Cfg
			sc.post = func() (*Mismatch, string) {
				wh := writesHash(writes)
				expect := expectDurableOrLater(writes)
				var found *Mismatch
				n := 0
				whh := Hash64(wh)
				vos.CrashStatesSkip(vos.New(), log, func(k, cut int, ph uint64) bool {
					crashStats["crash_states"]++
					if prefixSeen[ph^whh] {
						crashStats["crash_states_dup"]++
						return true
					}
					prefixSeen[ph^whh] = true
					return false
				}, func(k, cut int, st *vos.FS) bool {
					h := Hash64(st.Hash() + "|" + wh)
					if crashSeen[h] {
						crashStats["crash_states_dup"]++
						return true
					}
					crashSeen[h] = true
					crashStats["recoveries"]++
					n++
					desc := fmt.Sprintf("crash after %d of %d mutations (torn %d)", k, len(log), cut)
					mm, refused := recoverAndCheck(cfg, st, []string{"a", "b", "c"}, expect, desc)
					if refused {
						crashStats["recoveries_refused"]++
					}
					if mm != nil {
						mm.Step = k
						if k < len(log) {
							mm.Op += " next: " + mutString(&log[k])
						}
						found = mm
						return false
					}
					return true
				})
				return found, fmt.Sprintf("|%d new crash states", n)
			}
			return nil, obsString(rec.Ops)
		}
		out = append(out, sc)
	}
	mk("K1-rotate-flusher", func(rec *Recorder) { rec.Set(1, "c", val(1, 0, "c", 0)); rec.Set(1, "a", val(1, 1, "a", 0)) }, false)
	mk("K2-delete-rotate-flusher", func(rec *Recorder) { rec.Del(1, "a"); rec.Set(1, "b", val(1, 1, "b", 300)) }, false)
	if tier != "quick" {
		// the dumper walks 998 chunk slots (one lock each): ~35 000 schedules at one preemption
		mk("K3-rotate-flusher-dumper", func(rec *Recorder) { rec.Set(1, "c", val(1, 0, "c", 0)); rec.Set(1, "a", val(1, 1, "a", 0)) }, true)
	}
	return out
}

func C06(job *Job, r *Report) {
	r.Level = "fault_enumeration"
	r.Rule = "part (i): every history up to the stated depth over {set small / two-block value, delete, forced flush, background work (post-rotation flush), hint dump, Close as last letter} with data files of 2 blocks, hint splits of 2 items and a 256-byte bufio (so write calls end mid-record); for each history EVERY prefix of the memfs mutation log and, for every write, torn variants (every 256-byte boundary, cuts at 1/23/24/25/len-1, every byte for collision.yaml / nextgc.txt) is materialised as a crash state; distinct crash states (by content hash) are recovered in a fresh process and every key is read. Oracle judged on the crash state itself with an independent decoder: the store serves the last complete record D of the key (or a miss for a tombstone / no record) or a write of that key issued after D, or refuses to start only if some data file ends in an incomplete record or is unaligned; from every whole-mutation crash point of histories of up to 4 letters the chain continues: the recovered directory gets a second process that writes a new value for every key, flushes and is killed, and a third process must serve exactly those values; distinct_nontrivial = distinct crash states recovered"
	r.Assumptions = []string{"SIGKILL model: completed calls persist, the in-flight call may be partial, no reordering", "memfs models POSIX file semantics (validated by OS replay)", "no GC in this check, so file order is write order"}
	for _, x := range c06Specs(job.Tier) {
		if job.Part == "" || job.Part == x.Name {
			x.Explore(r, job)
		}
	}
	if job.Part == "" || job.Part == "sched" {
		pb := 2
		sub := &Job{Check: job.Check, Tier: job.Tier, Shard: job.Shard, NShards: job.NShards, Seed: job.Seed}
		all := c06SchedScenarios(job.Tier)
		if job.Tier == "quick" {
			runScenarios(sub, r, all, []int{pb}, -1)
		} else {
			pb = 3
			runScenarios(sub, r, all[:2], []int{3}, -1) // the two small scenarios
			runScenarios(sub, r, all[2:], []int{1}, -1) // with the dumper thread (998 lock points)
		}
		r.Extra["part_ii"] = map[string]interface{}{"preemption_bound": pb, "rule": "writer (rotating set / delete + two-block set) + periodic flusher (+ hint dumper) under the controlled scheduler: every schedule with at most the stated number of preemptions; for each schedule every prefix of its mutation log and torn variants is recovered and judged as in part (i)"}
	}
	for k, v := range crashStats {
		r.Count(k, v)
	}
	for h := range crashSeen {
		r.sets["nontrivial"] = r.sets["nontrivial"]
		if r.sets["nontrivial"] == nil {
			r.sets["nontrivial"] = map[uint64]struct{}{}
		}
		r.sets["nontrivial"][h] = struct{}{}
	}
}
