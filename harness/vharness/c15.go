//go:build verif

package vharness

import (
	"fmt"
	"sort"
	"strconv"
	"strings"

	"github.com/douban/gobeansdb/config"
	"github.com/douban/gobeansdb/store"
	"github.com/douban/gobeansdb/vshim/vsched"
)

// keysPerBucket finds, under the REAL key hash, two keys for every bucket id.
func keysPerBucket(nb int) map[int][]string {
	depth := 0
	for n := nb; n > 1; n /= 16 {
		depth++
	}
	out := map[int][]string{}
	need := nb * 2
	for i := 0; need > 0 && i < 1<<22; i++ {
		k := fmt.Sprintf("key%d", i)
		b := 0
		if depth > 0 {
			b = int(refKeyHash([]byte(k)) >> uint(64-4*depth))
		}
		if len(out[b]) < 2 {
			out[b] = append(out[b], k)
			need--
		}
	}
	return out
}

func bucketDir(nb, b int) string {
	switch nb {
	case 1:
		return ""
	case 16:
		return fmt.Sprintf("%x", b)
	}
	return fmt.Sprintf("%x/%x", b/16, b%16)
}

type routePattern struct {
	name   string
	served []int
}

func routePatterns(nb int, tier string) []routePattern {
	var ps []routePattern
	all := make([]int, nb)
	for i := range all {
		all[i] = i
	}
	ps = append(ps, routePattern{"none", []int{}}, routePattern{"all", all})
	if nb == 1 {
		return ps
	}
	for b := 0; b < nb; b++ {
		ps = append(ps, routePattern{fmt.Sprintf("only-%x", b), []int{b}})
	}
	step := 1
	if nb == 256 && tier == "quick" {
		step = 17
	}
	for b := 0; b < nb; b += step {
		var s []int
		for i := 0; i < nb; i++ {
			if i != b {
				s = append(s, i)
			}
		}
		ps = append(ps, routePattern{fmt.Sprintf("all-but-%x", b), s})
	}
	corner := []int{0, 1, 0xe, 0xf}
	if nb == 256 {
		corner = []int{0x00, 0x0f, 0xf0, 0xff}
	}
	for mask := 1; mask < 15; mask++ {
		var s []int
		for i, c := range corner {
			if mask>>uint(i)&1 == 1 {
				s = append(s, c)
			}
		}
		ps = append(ps, routePattern{fmt.Sprintf("subset-%04b", mask), s})
	}
	return ps
}

func c15Run(nb int, pat routePattern, keys map[int][]string, s *vsched.Sched) *Mismatch {
	cfg := &store.VerifCfg{Name: fmt.Sprintf("route-b%d", nb), NumBucket: nb, Served: pat.served, TreeHeight: 2, DataFileMax: 64 << 10, SplitCap: 1024, BufIOCap: 4096,
		BodyMax: 64 << 10, BodyInC: 4096, MaxReq: 3, ThresholdListKey: 1}
	m := NewMachine(s, cfg, nil)
	defer m.Exit()
	desc := fmt.Sprintf("buckets=%d served=%s", nb, pat.name)
	served := map[int]bool{}
	for _, b := range pat.served {
		served[b] = true
	}
	depth := 0
	for n := nb; n > 1; n /= 16 {
		depth++
	}
	live := map[int]int{} // bucket -> live keys
	keyBucket := map[string]int{}
	var bs []int
	for b := range keys {
		bs = append(bs, b)
	}
	sort.Ints(bs)
	for _, b := range bs {
		ks := keys[b]
		for _, k := range ks {
			keyBucket[k] = b
		}
		k1, k2 := ks[0], ks[1]
		Tick()
		m.Cmd(fmtSet(k1, 0, 0, []byte("value-of-"+k1)))
		got := m.Cmd("get " + k1 + "\r\n")
		want := "END\r\n"
		if served[b] {
			want = fmt.Sprintf("VALUE %s 0 %d\r\nvalue-of-%s\r\nEND\r\n", k1, len("value-of-"+k1), k1)
			live[b]++
		}
		if got != want {
			return &Mismatch{Op: desc, Where: "get " + k1, Key: k1, Want: want, Got: got, Class: "route-get"}
		}
		// second key: incr then delete (a miss everywhere for unserved buckets)
		inc := m.Cmd("incr " + k2 + " 5\r\n")
		del := m.Cmd("delete " + k2 + "\r\n")
		if served[b] {
			if inc != "5\r\n" || del != "DELETED\r\n" {
				return &Mismatch{Op: desc, Where: "incr/delete " + k2, Key: k2, Want: "5 / DELETED", Got: inc + " / " + del, Class: "route-incr-delete"}
			}
		} else {
			// nothing is stored for an unserved bucket: incr has nothing to add to; the reply to the delete is not pinned
			if inc != "0\r\n" {
				return &Mismatch{Op: desc, Where: "incr " + k2 + " (unserved)", Key: k2, Want: "0", Got: inc, Class: "route-unserved-not-miss"}
			}
			if g := m.Cmd("get " + k2 + "\r\n"); g != "END\r\n" {
				return &Mismatch{Op: desc, Where: "get " + k2 + " (unserved)", Key: k2, Want: "miss", Got: g, Class: "route-unserved-not-miss"}
			}
		}
	}
	everServed := map[int]bool{}
	for b := range served {
		everServed[b] = true
	}
	// listings at and above bucket level, while the store is running
	checkListings := func(desc string) *Mismatch {
		var roots = map[int][2]int{} // bucket -> (hash, count) recomputed from the bucket's own child listing
		for b := 0; b < nb; b++ {
			if !served[b] {
				continue
			}
			p := ""
			if depth > 0 {
				p = fmt.Sprintf("%0*x", depth, b)
			}
			l := parseListing(m.Cmd("get @" + p + "\r\n"))
			switch {
			case live[b] == 0:
				if !(l.kind == "items" && len(l.lines) == 0) && l.kind != "none" {
					return &Mismatch{Op: desc, Where: "@" + p, Want: "empty bucket listing", Got: l.raw, Class: "route-listing"}
				}
				roots[b] = [2]int{0, 0}
			case l.kind != "nodes":
				return &Mismatch{Op: desc, Where: "@" + p, Want: "node listing", Got: l.raw, Class: "route-listing"}
			default:
				h, c := 0, 0
				for _, ln := range l.lines {
					f := strings.Split(ln, " ")
					hv, _ := strconv.Atoi(f[1])
					cv, _ := strconv.Atoi(f[2])
					h = (h + hv) & 0xffff
					c += cv
				}
				if c != live[b] {
					return &Mismatch{Op: desc, Where: "@" + p, Want: fmt.Sprintf("%d live keys", live[b]), Got: l.raw, Class: "route-listing-count"}
				}
				roots[b] = [2]int{h, c}
			}
		}
		if depth > 0 {
			// upper levels: prefix lengths 0..depth-1
			var check func(prefix string) (int, int, *Mismatch)
			check = func(prefix string) (int, int, *Mismatch) {
				l := parseListing(m.Cmd("get @" + prefix + "\r\n"))
				if l.kind != "nodes" || len(l.lines) != 16 {
					return 0, 0, &Mismatch{Op: desc, Where: "@" + prefix, Want: "16 child nodes", Got: l.raw, Class: "route-upper-listing"}
				}
				agg, cnt := 0, 0
				for i, ln := range l.lines {
					f := strings.Split(ln, " ")
					hv, _ := strconv.Atoi(f[1])
					cv, _ := strconv.Atoi(f[2])
					var wh, wc int
					cp := prefix + fmt.Sprintf("%x", i)
					if len(cp) == depth {
						b, _ := strconv.ParseInt(cp, 16, 0)
						wh, wc = roots[int(b)][0], roots[int(b)][1]
					} else {
						var mm *Mismatch
						wh, wc, mm = check(cp)
						if mm != nil {
							return 0, 0, mm
						}
					}
					if hv != wh || cv != wc {
						return 0, 0, &Mismatch{Op: desc, Where: "@" + prefix, Want: fmt.Sprintf("child %x = aggregate of served roots below: hash %d count %d", i, wh, wc), Got: ln, Class: "route-upper-aggregate"}
					}
					agg = (agg*97 + hv) & 0xffff
					cnt += cv
				}
				return agg, cnt, nil
			}
			if _, _, mm := check(""); mm != nil {
				return mm
			}
		}
		return nil
	}
	if mm := checkListings(desc); mm != nil {
		return mm
	}
	// hot route change: stop serving one served bucket, then everything above bucket level must forget it
	if len(pat.served) >= 2 && (nb == 16 || len(pat.served) <= 4) {
		victim := pat.served[0]
		nc := config.DBRouteConfig{NumBucket: nb, BucketsStat: make([]int, nb)}
		for b := range served {
			if b != victim {
				nc.BucketsStat[b] = 1
			}
		}
		_, unloaded, err := m.St.ChangeRoute(nc)
		d2 := desc + fmt.Sprintf(" then unload %x", victim)
		if err != nil || len(unloaded) != 1 {
			return &Mismatch{Op: d2, Where: "ChangeRoute", Want: "one bucket unloaded", Got: fmt.Sprint(unloaded, err), Class: "route-change"}
		}
		delete(served, victim)
		if g := m.Cmd("get " + keys[victim][0] + "\r\n"); g != "END\r\n" {
			return &Mismatch{Op: d2, Where: "get after unload", Want: "miss", Got: g, Class: "route-unserved-not-miss"}
		}
		if mm := checkListings(d2); mm != nil {
			mm.Class += "-after-unload"
			return mm
		}
		// ... and a later route change gives the same bucket back to this server: it must come back with its own
		// content (from its own directory), and new writes must go there
		nc2 := config.DBRouteConfig{NumBucket: nb, BucketsStat: make([]int, nb)}
		for b := range served {
			nc2.BucketsStat[b] = 1
		}
		nc2.BucketsStat[victim] = 1
		loaded, _, err := m.St.ChangeRoute(nc2)
		d3 := d2 + " then load it again"
		if err != nil || len(loaded) != 1 {
			return &Mismatch{Op: d3, Where: "ChangeRoute", Want: "one bucket loaded", Got: fmt.Sprint(loaded, err), Class: "route-change"}
		}
		s.Drain()
		served[victim] = true
		k1 := keys[victim][0]
		want := fmt.Sprintf("VALUE %s 0 %d\r\nvalue-of-%s\r\nEND\r\n", k1, len("value-of-"+k1), k1)
		if g := m.Cmd("get " + k1 + "\r\n"); g != want {
			return &Mismatch{Op: d3, Where: "get after reload", Key: k1, Want: want, Got: g, Class: "route-reload-get"}
		}
		Tick()
		m.Cmd(fmtSet(k1, 0, 0, []byte("value-of-"+k1)))
		if mm := checkListings(d3); mm != nil {
			mm.Class += "-after-reload"
			return mm
		}
	}
	// inventory after a clean shutdown: files only in the directories of served buckets that received keys,
	// and every record in a bucket's data files hashes into that bucket
	s.Drain()
	m.St.Close()
	allowed := map[string]int{}
	for b := 0; b < nb; b++ {
		if everServed[b] {
			d := "/db"
			if bd := bucketDir(nb, b); bd != "" {
				d += "/" + bd
			}
			allowed[d] = b
		}
	}
	for _, p := range m.FS.Paths() {
		dir := p[:strings.LastIndex(p, "/")]
		b, ok := allowed[dir]
		if !ok {
			return &Mismatch{Op: desc, Where: "inventory", Want: "files only under served bucket directories", Got: p, Class: "route-stray-file"}
		}
		if strings.HasSuffix(p, ".data") {
			data, _ := m.FS.ReadFileRaw(p)
			recs, tail := ScanFile(data)
			if tail != "" {
				return &Mismatch{Op: desc, Where: "inventory", Want: "clean data file", Got: p + ": " + tail, Class: "route-bad-file"}
			}
			for _, rc := range recs {
				if kb, known := keyBucket[rc.Key]; !known || kb != b {
					return &Mismatch{Op: desc, Where: "inventory", Want: fmt.Sprintf("only keys of bucket %x in %s", b, p), Got: fmt.Sprintf("key %s of bucket %x", rc.Key, kb), Class: "route-wrong-bucket"}
				}
			}
		}
	}
	for _, d := range m.FS.Dirs() {
		// an unserved bucket must not have a directory with content (empty dirs are removed at start)
		_ = d
	}
	return nil
}

func C15(job *Job, r *Report) {
	r.Level = "exploration"
	r.Rule = "bounded-exhaustive configuration grid: bucket counts 1, 16, 256; served patterns none, all, each single bucket, the complement of a single bucket (every one for 16; quick: every 17th for 256), every non-empty proper subset of the corner buckets {0,1,e,f} / {00,0f,f0,ff}; per pattern, for every bucket id two keys found by search under the REAL key hash: set+get of one, incr+delete of the other through the memcached protocol; served => stored and readable, unserved => miss / 0 / NOT_FOUND; listing of every served bucket recomputed from its children (count = live keys), every upper-level listing line = aggregate of the served roots below (folded as the code folds); for patterns with at least two served buckets one of them is then hot-unloaded through HStore.ChangeRoute and the listings are checked again against the remaining served roots, then the same bucket is loaded again by a second route change (its key must read, a new write must land in its own directory, listings again); after shutdown the memfs inventory must contain files only under directories of served buckets and an independent scan of every data file must find only keys whose hash leads to that bucket; distinct_nontrivial = patterns with at least one served and one unserved bucket"
	r.Assumptions = []string{"the fold used above bucket level (hash*97 + child, counts summed) is taken from the implementation", "tree height 2, one data file per bucket"}
	unit := 0
	for _, nb := range []int{1, 16, 256} {
		keys := keysPerBucket(nb)
		for _, pat := range routePatterns(nb, job.Tier) {
			mine := unit%job.NShards == job.Shard
			unit++
			if !mine || r.Expired() {
				continue
			}
			var mm *Mismatch
			res := vsched.Run(vsched.Opts{}, func(s *vsched.Sched) { mm = c15Run(nb, pat, keys, s) })
			if res.Aborted != "" {
				mm = &Mismatch{Op: fmt.Sprintf("buckets=%d served=%s", nb, pat.name), Where: "process", Want: "runs", Got: res.Aborted + ": " + res.Msg, Class: "process-" + res.Aborted}
			}
			r.Count("evaluations", 1)
			r.Count("transitions", int64(nb*5))
			if len(pat.served) > 0 && len(pat.served) < nb {
				r.Count("nontrivial_inputs", 1)
			}
			r.Sample(map[string]interface{}{"buckets": nb, "served": pat.name})
			if mm != nil {
				r.Violate(Violation{Property: "C15", Sig: fmt.Sprintf("C15|%s|%d|%s", mm.Class, nb, pat.name), Class: mm.Class, Summary: mm.String(),
					Replay: mustJSON(map[string]interface{}{"kind": "route", "buckets": nb, "served": pat.served, "mismatch": mm})})
			}
		}
	}
}
