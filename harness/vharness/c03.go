//go:build verif

package vharness

import (
	"bytes"
	"fmt"
	"strings"

	"github.com/douban/gobeansdb/quicklz"
	"github.com/douban/gobeansdb/store"
	"github.com/douban/gobeansdb/vshim/vsched"
)

func cfgGC1() *store.VerifCfg {
	return &store.VerifCfg{Name: "gc-f512-inplace", NumBucket: 1, TreeHeight: 3, DataFileMax: 512, SplitCap: 1024, BufIOCap: 4096,
		BodyMax: 64 << 10, BodyInC: 4096, MaxReq: 3, Hash: hashAB}
}
func cfgGC2() *store.VerifCfg {
	// a file holding a single 256-byte record counts as "not full" (size < DataFileMax-BodyMax = 257), so a
	// short file left behind by a restart becomes the GC destination: append to an earlier file, then overflow
	return &store.VerifCfg{Name: "gc-f512-b255-earlier", NumBucket: 1, TreeHeight: 3, DataFileMax: 512, SplitCap: 2, BufIOCap: 4096,
		BodyMax: 255, BodyInC: 4096, MaxReq: 3, Hash: hashAB}
}

// cfgGC3: three records per file; a file with one or two records is "not full" (size < 768-255), so a pass can start
// appending to an earlier file and switch onto the file it is reading when that one overflows
func cfgGC3() *store.VerifCfg {
	return &store.VerifCfg{Name: "gc-f768-b255-switch", NumBucket: 1, TreeHeight: 3, DataFileMax: 768, SplitCap: 1024, BufIOCap: 4096,
		BodyMax: 255, BodyInC: 4096, MaxReq: 3, Hash: hashAB}
}

// symmetricKeys prunes histories that differ only by a renaming of the keys: key number i may be used for the first
// time only after keys 0..i-1 have been used (GC never looks at hash positions, so the keys are interchangeable here).
func symmetricKeys(order []string, hist []Op, op Op) bool {
	if op.Key == "" {
		return false
	}
	idx := -1
	for i, k := range order {
		if k == op.Key {
			idx = i
		}
	}
	if idx <= 0 {
		return false
	}
	used := map[string]bool{}
	for _, o := range hist {
		used[o.Key] = true
	}
	for _, k := range order[:idx] {
		if !used[k] {
			return true
		}
	}
	return false
}

// dataFiles returns chunk id -> content for bucket 0's directory.
func (m *Machine) dataFiles(bucket int) map[int][]byte {
	out := map[int][]byte{}
	home := m.St.VerifBucketHome(bucket)
	for _, p := range m.FS.Paths() {
		if strings.HasPrefix(p, home+"/") && strings.HasSuffix(p, ".data") && strings.Count(p[len(home)+1:], "/") == 0 {
			var id int
			fmt.Sscanf(p[len(home)+1:], "%03d.data", &id)
			d, _ := m.FS.ReadFileRaw(p)
			out[id] = append([]byte(nil), d...)
		}
	}
	return out
}

// gcStep runs one GC request to completion, optionally with the C18 oracle.
func gcStep(m *Machine, md *Model, o Op, step int, reclaim bool) *Mismatch {
	b, e, mg, bkt := o.A[0], o.A[1], o.A[2] != 0, 0
	m.S.Drain()
	m.St.VerifFlush(true)
	m.S.Drain()
	Tick()
	before := m.dataFiles(bkt)
	begin, end, err := m.St.GC(bkt, b, e, 0, mg, false)
	if err != nil {
		deadEnd = step == curHistLen-1 // request refused: nothing may have changed (C17 checks that)
		return nil
	}
	m.S.Drain()
	g := m.St.VerifLastGC(bkt)
	if g == nil {
		return &Mismatch{Step: step, Op: o.String(), Where: "gc", Want: "a pass ran", Got: "no GC state", Class: "gc-nostate"}
	}
	if g.Err != nil {
		return &Mismatch{Step: step, Op: o.String(), Where: "gc", Want: "no error", Got: g.Err.Error(), Class: "gc-error"}
	}
	if step == curHistLen-1 {
		gcStats["gc_passes"]++
		if g.NumReleased > 0 {
			gcStats["gc_passes_releasing"]++
		}
		if g.NumReleasedDeleted > 0 {
			gcStats["gc_passes_releasing_deleted"]++
		}
		switch {
		case g.Dst < g.Begin:
			gcStats["gc_dst_earlier_file"]++
		case g.Dst > g.Begin:
			gcStats["gc_dst_overflowed"]++
		default:
			gcStats["gc_dst_inplace"]++
		}
		if mg {
			gcStats["gc_with_merge"]++
		}
	}
	if !reclaim {
		return nil
	}
	after := m.dataFiles(bkt)
	// C18 (i): every record left in the range is the current record of its key, exactly once
	seen := map[string]int{}
	for id := begin; id <= end; id++ {
		d, ok := after[id]
		if !ok {
			continue
		}
		recs, tail := ScanFile(d)
		if tail != "" {
			return &Mismatch{Step: step, Op: o.String(), Where: fmt.Sprintf("scan %03d.data", id), Want: "clean file", Got: tail, Class: "gc-badfile"}
		}
		for _, rc := range recs {
			if !rc.CRCOK {
				return &Mismatch{Step: step, Op: o.String(), Where: fmt.Sprintf("scan %03d.data@%d", id, rc.Off), Want: "crc ok", Got: "bad crc", Class: "gc-badcrc"}
			}
			v := md.M[rc.Key]
			if v != nil && v.VerFree {
				continue
			}
			cur := false
			switch {
			case v == nil:
			case v.Ver < 0:
				cur = rc.Ver == v.Ver
			default:
				body := rc.Body
				if rc.Flag&store.FLAG_COMPRESS != 0 {
					if db, err := quicklz.DecompressSafe(rc.Body); err == nil {
						body = db
					}
				}
				verOK := rc.Ver == v.Ver
				for _, a := range v.VerAlt {
					verOK = verOK || rc.Ver == a
				}
				cur = verOK && bytes.Equal(body, v.Body) && rc.Flag&^store.FLAG_COMPRESS == v.Flag
			}
			if !cur {
				return &Mismatch{Step: step, Op: o.String(), Where: fmt.Sprintf("scan %03d.data@%d", id, rc.Off), Key: rc.Key,
					Want: "only current records in the collected range", Got: fmt.Sprintf("superseded record key=%s ver=%d", rc.Key, rc.Ver), Class: classSuperseded(rc.Ver)}
			}
			seen[rc.Key]++
			if seen[rc.Key] > 1 {
				return &Mismatch{Step: step, Op: o.String(), Where: fmt.Sprintf("scan %03d.data@%d", id, rc.Off), Key: rc.Key,
					Want: "each current record once", Got: "duplicate", Class: "gc-duplicate"}
			}
		}
	}
	// C18 (ii): files outside the range: unchanged, except one earlier file that only grew
	grown := 0
	for id, d := range before {
		if a, ok := after[id]; ok && id < begin && len(d) > 0 && len(a) > len(d) {
			grown++
		}
	}
	if grown > 1 {
		return &Mismatch{Step: step, Op: o.String(), Where: "files before the range", Want: "at most one earlier file appended to", Got: fmt.Sprintf("%d earlier files grew", grown), Class: "gc-outside-range"}
	}
	for id, d := range before {
		if id >= begin && id <= end {
			continue
		}
		a, ok := after[id]
		if !ok || len(a) < len(d) || !bytes.Equal(a[:len(d)], d) {
			return &Mismatch{Step: step, Op: o.String(), Where: fmt.Sprintf("%03d.data", id), Want: "prefix unchanged", Got: "rewritten/removed outside range", Class: "gc-outside-range"}
		}
		if len(a) > len(d) && id > begin {
			return &Mismatch{Step: step, Op: o.String(), Where: fmt.Sprintf("%03d.data", id), Want: "later files untouched", Got: "grew", Class: "gc-outside-range"}
		}
	}
	// C18 (iii): the same pass again releases nothing and changes no file
	Tick()
	b2, e2, err := m.St.GC(bkt, begin, end, 0, mg, false)
	if err == nil {
		m.S.Drain()
		g2 := m.St.VerifLastGC(bkt)
		if g2.Err != nil {
			return &Mismatch{Step: step, Op: o.String(), Where: "gc2", Want: "no error", Got: g2.Err.Error(), Class: "gc-error"}
		}
		if g2.NumReleased != 0 || g2.SizeReleased != 0 {
			return &Mismatch{Step: step, Op: o.String(), Where: "gc2", Want: "second pass releases nothing", Got: fmt.Sprintf("range [%d,%d] released %d records %d bytes", b2, e2, g2.NumReleased, g2.SizeReleased), Class: "gc-second-pass-releases"}
		}
		again := m.dataFiles(bkt)
		if len(again) != len(after) {
			return &Mismatch{Step: step, Op: o.String(), Where: "gc2", Want: "same files", Got: fmt.Sprintf("%d vs %d files", len(again), len(after)), Class: "gc-second-pass-changes"}
		}
		for id, d := range after {
			if !bytes.Equal(again[id], d) {
				return &Mismatch{Step: step, Op: o.String(), Where: fmt.Sprintf("gc2 %03d.data", id), Want: "unchanged by second pass", Got: "changed", Class: "gc-second-pass-changes"}
			}
		}
	}
	return nil
}

var curHistLen int
var gcStats = map[string]int64{}

func classSuperseded(ver int32) string {
	if ver < 0 {
		return "gc-superseded-tombstone"
	}
	return "gc-superseded-value"
}

func gcExec(reclaim bool) func(x *XSpec, s *vsched.Sched, hist []Op, wantDump bool) (*Mismatch, string) {
	return func(x *XSpec, s *vsched.Sched, hist []Op, wantDump bool) (*Mismatch, string) {
		m := NewMachine(s, x.Cfg, nil)
		m.AutoDrain = true
		defer m.Exit()
		md := NewModel(x.Cfg.CheckVHash)
		restarted := false
		curHistLen = len(hist)
		for i, o := range hist {
			var mm *Mismatch
			switch o.K {
			case "gc":
				mm = gcStep(m, md, o, i, reclaim)
			case "restart":
				restarted = true
				mm = Step(m, md, o, i)
			default:
				mm = Step(m, md, o, i)
			}
			if mm != nil {
				return mm, ""
			}
		}
		if mm := Battery(m, md, x.Keys, len(hist), BatteryOpts{TombVerExact: !restarted}); mm != nil {
			return mm, ""
		}
		nextOps = acceptedGCs(m, 0)
		if wantDump {
			return nil, m.Dump()
		}
		return nil, ""
	}
}

// acceptedGCs asks the real range check about every (begin,end) in [-1..head]^2
// and returns one GC letter per distinct resolved range and merge flag.
func acceptedGCs(m *Machine, bkt int) []Op {
	m.S.Drain()
	m.St.VerifFlush(true) // a GC letter = drain, flush, request (an unflushed head hides the file before it from the range check)
	m.S.Drain()
	Tick()
	head := m.St.VerifNewHead(bkt)
	seen := map[[2]int]bool{}
	var out []Op
	for b := -1; b <= head+1; b++ {
		for e := -1; e <= head+1; e++ {
			rb, re, err := m.St.VerifGCCheckRange(bkt, b, e, 0)
			if err != nil || seen[[2]int{rb, re}] {
				continue
			}
			seen[[2]int{rb, re}] = true
			for mg := 0; mg < 2; mg++ {
				out = append(out, Op{K: "gc", A: []int{rb, re, mg}})
			}
		}
	}
	return out
}

// gcPhases builds the phase-structured pruning: up to L layout letters
// (optionally with one tree-rebuilding restart anywhere), then GC letters and
// post-GC letters up to the total depth.
func gcPrune(L int, post int, layoutRestart bool) func(hist []Op, op Op) bool {
	return func(hist []Op, op Op) bool {
		ngc, nlayout, nrestart, npost := 0, 0, 0, 0
		for _, o := range hist {
			switch {
			case o.K == "gc":
				ngc++
			case ngc == 0 && o.K == "restart" && o.A[0] == 1:
				nrestart++
			case ngc == 0:
				nlayout++
			default:
				npost++
			}
		}
		if ngc == 0 {
			switch op.K {
			case "gc":
				return false
			case "restart":
				if op.A[0] == 0 && layoutRestart {
					// a plain restart as a layout letter: leaves a short file behind (new processes never append to old files)
					return nlayout >= L || nrestart >= 1 || len(hist) == 0 || hist[len(hist)-1].K == "restart"
				}
				return nrestart >= 1 || op.A[0] != 1 // otherwise only the tree-rebuilding restart, right before the GC
			default:
				return nlayout >= L || nrestart >= 1 // the tree-rebuilding restart comes right before the GC
			}
		}
		// after the first GC: one more letter (restart, layout letter or second GC); after a layout letter one GC
		last := hist[len(hist)-1]
		switch {
		case post == 0:
			return true
		case post == -2: // exactly one more letter: a second GC request in the same process
			return !(npost == 0 && ngc == 1 && op.K == "gc")
		case post == 1:
			return !(npost+ngc-1 == 0 && op.K == "restart")
		case npost+ngc-1 == 0:
			return false
		case npost == 1 && ngc == 1 && last.K != "restart" && last.K != "gc":
			return op.K != "gc"
		}
		return true
	}
}

func gcSpecs(prop string, tier string, reclaim bool) []*XSpec {
	keys := []string{"a", "b"}
	layout := perKey(keys, Op{K: "set", V: "s"}, Op{K: "del"}, Op{K: "set", V: "x300"})
	post := []Op{{K: "restart", A: []int{0}}, {K: "restart", A: []int{1}}, {K: "restart", A: []int{2}}, {K: "restart", A: []int{3}}, {K: "restart", A: []int{4}}}
	al := append(append([]Op{}, layout...), post...)
	keys3 := []string{"a", "b", "c"}
	small := append(append(perKey(keys3, Op{K: "set", V: "s"}), Op{K: "del", Key: "a"}), post...)
	keys4 := []string{"a", "b", "c", "d"}
	sets4 := append(perKey(keys4, Op{K: "set", V: "s"}), post...)
	mk := func(c *store.VerifCfg, L int, post int) *XSpec {
		al := al
		ks := keys
		pr := gcPrune(L, post, c.BodyMax < 300)
		if c.BodyMax < 300 {
			al, ks = small, keys3
			if c.DataFileMax > 512 {
				al, ks = sets4, keys4
			}
			base := pr
			pr = func(hist []Op, op Op) bool { return base(hist, op) || symmetricKeys(ks, hist, op) }
		}
		name := fmt.Sprintf("%s-L%d-post%d", c.Name, L, post)
		if post == -2 {
			name = fmt.Sprintf("%s-L%d-then-second-pass", c.Name, L)
		}
		return &XSpec{Property: prop, Name: name, Cfg: c, Alphabet: al, Depth: L + 4, Keys: ks, Exec: gcExec(reclaim), Prune: pr}
	}
	// non-initial start state: file 0 is a short file left by an earlier process ([a]), file 1 is full ([b][c]); then every
	// layout of 3 more sets over five keys, a pass, and a second pass in the same process: the first pass can GROW the short
	// file in place, the second one has to pick its destination from what the first one left in memory
	grow := mk(cfgGC2(), 3, -2)
	keys5 := []string{"a", "b", "c", "d", "e"}
	grow.Prefix = []Op{{K: "set", V: "s", Key: "a"}, {K: "restart", A: []int{0}}, {K: "set", V: "s", Key: "b"}, {K: "set", V: "s", Key: "c"}}
	grow.Name = cfgGC2().Name + "-after-short-file-L3-then-second-pass"
	grow.Alphabet = append(perKey(keys5, Op{K: "set", V: "s"}), post...)
	grow.Keys = keys5
	{
		base := gcPrune(3, -2, false)
		grow.Prune = func(hist []Op, op Op) bool {
			if op.K == "restart" && !gcSeen(hist) {
				return true // sets only before the first pass
			}
			return base(hist, op) || symmetricKeys(keys5, append(append([]Op{}, grow.Prefix...), hist...), op)
		}
	}
	if tier == "quick" {
		return []*XSpec{mk(cfgGC1(), 3, 2), mk(cfgGC2(), 5, 1), mk(cfgGC1(), 4, 0), mk(cfgGC2(), 5, -2), grow}
	}
	return []*XSpec{mk(cfgGC1(), 4, 2), mk(cfgGC2(), 5, 2), mk(cfgGC1(), 5, 1), mk(cfgGC2(), 7, 1), mk(cfgGC3(), 9, 0), grow}
}

func gcSeen(hist []Op) bool {
	for _, o := range hist {
		if o.K == "gc" {
			return true
		}
	}
	return false
}

func C03(job *Job, r *Report) {
	r.Level = "model_checking"
	r.Rule = "every layout history of up to L set/delete letters (1-block and 2-block values, 2 keys in one leaf, data files of 2 blocks or 4 blocks) with an optional tree-rebuilding restart, then every distinct range that the real range check resolves from any (begin,end) in [-1..head+1]^2, x merge on/off (run to completion), then up to 2 more letters from {restart keeping/dropping hash/hints/all, exit without Close, any layout letter, a second GC}; the read battery is compared with the reference map (GC = identity) after every step; distinct = canonical state dumps"
	r.Assumptions = []string{"GC passes run with no concurrent traffic here (C05 explores overlap)", "versions of deleted keys are not compared after a restart", "memfs models POSIX file semantics"}
	for _, x := range gcSpecs("C03", job.Tier, false) {
		if job.Part != "" && job.Part != x.Name {
			continue
		}
		x.Explore(r, job)
	}
	for k, v := range gcStats {
		r.Count(k, v)
	}
}

func C18(job *Job, r *Report) {
	r.Level = "model_checking"
	r.Rule = "same layouts, GC requests and follow-up letters as C03; after every completed pass an independent record scanner (own decoder, Go hash/crc32) reads every data file of the resolved range: each record must be the reference map's current record of its key (value or tombstone), at most once; files outside the range must be byte-identical except one earlier file that may only grow; an identical second pass must release nothing and change no file"
	r.Assumptions = []string{"quiescent passes only", "non-colliding keys", "memfs models POSIX file semantics"}
	for _, x := range gcSpecs("C18", job.Tier, true) {
		if job.Part != "" && job.Part != x.Name {
			continue
		}
		x.Explore(r, job)
	}
	for k, v := range gcStats {
		r.Count(k, v)
	}
}
