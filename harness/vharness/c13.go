//go:build verif

package vharness

import (
	"fmt"
	"strings"

	"github.com/douban/gobeansdb/store"
	"github.com/douban/gobeansdb/vshim/vsched"
)

var hashCollide = map[string]uint64{
	"x1": 0xab12345678abcdef,
	"x2": 0xab12345678abcdef,
	"x3": 0xab12345678abcdef,
	"a":  0xab1fedcba9876543,
}

// the colliding pair used by the repository's Python test-suite (real hash)
const realCollideA = "processed_log_backup_text_20140912102821_1020_13301733"
const realCollideB = "/subject/10460967/props"

func cfgCollide(real bool) *store.VerifCfg {
	c := &store.VerifCfg{Name: "collide-forced", NumBucket: 1, TreeHeight: 3, DataFileMax: 512, SplitCap: 1024, BufIOCap: 4096,
		BodyMax: 64 << 10, BodyInC: 4096, MaxReq: 3, Hash: hashCollide}
	if real {
		c.Name = "collide-realhash"
		c.Hash = nil
	}
	return c
}

func c13Exec(x *XSpec, s *vsched.Sched, hist []Op, wantDump bool) (*Mismatch, string) {
	m := NewMachine(s, x.Cfg, nil)
	m.AutoDrain = true
	defer m.Exit()
	if x.Cfg.Hash == nil && store.VerifRealKeyHash(realCollideA) != store.VerifRealKeyHash(realCollideB) {
		panic("the real colliding pair does not collide")
	}
	md := NewModel(false)
	curHistLen = len(hist)
	for i, o := range hist {
		var mm *Mismatch
		switch o.K {
		case "gc":
			mm = gcStep(m, md, o, i, false)
		case "get":
			mm = Battery1(m, md, o.Key, i)
		default:
			mm = Step(m, md, o, i)
			if mm != nil && mm.Class == "reply" && o.K == "del" && strings.HasPrefix(mm.Want, "NOT_FOUND") && strings.HasPrefix(mm.Got, "DELETED") {
				mm.Class = "reply-delete-of-absent-key-answered-deleted"
			}
			if mm != nil && mm.Class == "reply" && o.K == "del" && strings.HasPrefix(mm.Want, "DELETED") && strings.HasPrefix(mm.Got, "NOT_FOUND") {
				mm.Class = "reply-delete-of-live-key-answered-not-found"
			}
			if v := md.M[o.Key]; v != nil && o.Key != "a" {
				v.VerFree = true
			}
		}
		if mm != nil {
			return mm, ""
		}
	}
	// final battery: plain gets of every key (value and liveness), full battery for the ordinary key
	for _, k := range x.Keys {
		if mm := Battery1(m, md, k, len(hist)); mm != nil {
			return mm, ""
		}
	}
	nextOps = acceptedGCs(m, 0)
	if wantDump {
		return nil, m.Dump()
	}
	return nil, ""
}

// Battery1 is a single get of one key compared with the model (value, flags, liveness).
func Battery1(m *Machine, md *Model, k string, step int) *Mismatch {
	v := md.M[k]
	got := m.Cmd("get " + k + "\r\n")
	want := "END\r\n"
	if v.Live() {
		want = fmt.Sprintf("VALUE %s %d %d\r\n%s\r\nEND\r\n", k, v.Flag, len(v.Body), v.Body)
	}
	if got == want {
		return nil
	}
	cls := "get-wrong"
	pg := ParseGetReply(got)
	switch {
	case !pg.OK:
		cls = "get-error"
	case v.Live() && len(pg.Items) == 0:
		cls = "get-lost"
	case !v.Live() && len(pg.Items) > 0:
		cls = "get-resurrected"
	case v.Live() && pg.Items[k].Body != string(v.Body):
		cls = "get-wrongvalue"
	case v.Live() && pg.Items[k].Flag != int(v.Flag):
		cls = "get-wrongflag"
	}
	return &Mismatch{Step: step, Op: "get:" + k, Where: "get", Key: k, Want: want, Got: got, Class: cls}
}

func c13Specs(tier string) []*XSpec {
	mk := func(c *store.VerifCfg, keys []string, coll []string, d int) *XSpec {
		al := perKey(coll, Op{K: "set", V: "s"}, Op{K: "del"}, Op{K: "get"})
		al = append(al, Op{K: "set", V: "s", Key: keys[len(keys)-1]})
		al = append(al, Op{K: "flush"}, Op{K: "restart", A: []int{0}}, Op{K: "restart", A: []int{1}})
		return &XSpec{Property: "C13", Name: fmt.Sprintf("%s-k%d", c.Name, len(coll)), Cfg: c, Alphabet: al, Depth: d, Keys: keys, Exec: c13Exec,
			Prune: func(hist []Op, op Op) bool {
				// at most one GC per history, at most two restarts
				ngc, nrs := 0, 0
				for _, o := range hist {
					if o.K == "gc" {
						ngc++
					}
					if o.K == "restart" {
						nrs++
					}
				}
				return (op.K == "gc" && ngc >= 1) || (op.K == "restart" && nrs >= 2)
			}}
	}
	// non-initial start states: the colliding group is already written (each key once, in key order; the forced hash makes the
	// keys interchangeable), then every history of d more letters: this reaches the depth d+2 / d+3 histories that matter most
	after := func(x *XSpec, n int) *XSpec {
		for _, k := range x.Keys[:n] {
			x.Prefix = append(x.Prefix, Op{K: "set", V: "s", Key: k})
		}
		x.Name += "-after-" + strings.ReplaceAll(HistString(x.Prefix), " ", "+")
		// these specs also give every hint item its own index entry (hint_index_interval below one item), so lookups in
		// dumped hint files go through the index search instead of scanning the tiny file from its start
		c := *x.Cfg
		c.IndexIntervalSize = 1
		c.Name += "-idx1"
		x.Cfg = &c
		x.Name = strings.Replace(x.Name, "collide-forced", "collide-forced-idx1", 1)
		return x
	}
	if tier == "quick" {
		return []*XSpec{
			mk(cfgCollide(false), []string{"x1", "x2", "a"}, []string{"x1", "x2"}, 5),
			mk(cfgCollide(true), []string{realCollideA, realCollideB, "a"}, []string{realCollideA, realCollideB}, 4),
			after(mk(cfgCollide(false), []string{"x1", "x2", "a"}, []string{"x1", "x2"}, 4), 2),
			after(mk(cfgCollide(false), []string{"x1", "x2", "x3", "a"}, []string{"x1", "x2", "x3"}, 3), 3),
		}
	}
	return []*XSpec{
		mk(cfgCollide(false), []string{"x1", "x2", "a"}, []string{"x1", "x2"}, 6),
		mk(cfgCollide(false), []string{"x1", "x2", "x3", "a"}, []string{"x1", "x2", "x3"}, 5),
		mk(cfgCollide(true), []string{realCollideA, realCollideB, "a"}, []string{realCollideA, realCollideB}, 5),
		after(mk(cfgCollide(false), []string{"x1", "x2", "a"}, []string{"x1", "x2"}, 5), 2),
		after(mk(cfgCollide(false), []string{"x1", "x2", "x3", "a"}, []string{"x1", "x2", "x3"}, 4), 3),
	}
}

func C13(job *Job, r *Report) {
	r.Level = "model_checking"
	r.Rule = "every history up to the stated depth over {set, delete, get} of 2-3 keys forced onto one 64-bit key hash (and the real colliding pair of the Python suite under the real hash), a set of an ordinary key, flush, restart keeping / dropping the tree dump (collision.yaml always kept) and every GC range the range check resolves (merge off/on, at most one pass per history); gets are transitions because they populate the collision table; after every history every key is read and compared with the per-key reference map (value, flags, liveness)"
	r.Assumptions = []string{"versions of colliding keys are not compared", "collision.yaml is durable state", "quiescent GC"}
	for _, x := range c13Specs(job.Tier) {
		if job.Part != "" && job.Part != x.Name {
			continue
		}
		x.Explore(r, job)
	}
}
