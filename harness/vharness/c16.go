//go:build verif

package vharness

import (
	"fmt"
	"hash/crc32"

	"github.com/douban/gobeansdb/store"
	"github.com/douban/gobeansdb/utils"
)

// ---- independent reference implementations ------------------------------------

// refFnv1a: the historical beansdb variant: FNV-1a over bytes taken as SIGNED chars.
func refFnv1a(b []byte) uint32 {
	h := uint32(2166136261)
	for _, c := range b {
		x := int32(int8(c)) // sign extension: the historical quirk
		h ^= uint32(x)
		h *= 16777619
	}
	return h
}

// refMurmur3 is MurmurHash3_x86_32 with seed 0, from Austin Appleby's published algorithm.
func refMurmur3(data []byte) uint32 {
	const c1, c2 = 0xcc9e2d51, 0x1b873593
	h1 := uint32(0)
	n := len(data)
	nblocks := n / 4
	for i := 0; i < nblocks; i++ {
		k1 := uint32(data[4*i]) | uint32(data[4*i+1])<<8 | uint32(data[4*i+2])<<16 | uint32(data[4*i+3])<<24
		k1 *= c1
		k1 = k1<<15 | k1>>17
		k1 *= c2
		h1 ^= k1
		h1 = h1<<13 | h1>>19
		h1 = h1*5 + 0xe6546b64
	}
	tail := data[nblocks*4:]
	var k1 uint32
	switch len(tail) {
	case 3:
		k1 ^= uint32(tail[2]) << 16
		fallthrough
	case 2:
		k1 ^= uint32(tail[1]) << 8
		fallthrough
	case 1:
		k1 ^= uint32(tail[0])
		k1 *= c1
		k1 = k1<<15 | k1>>17
		k1 *= c2
		h1 ^= k1
	}
	h1 ^= uint32(n)
	h1 ^= h1 >> 16
	h1 *= 0x85ebca6b
	h1 ^= h1 >> 13
	h1 *= 0xc2b2ae35
	h1 ^= h1 >> 16
	return h1
}

func refKeyHash(key []byte) uint64 { return uint64(refFnv1a(key))<<32 | uint64(refMurmur3(key)) }

// refVhash: beansdb's gen_hash: len*97 + fnv1a(all) for len<=1024, else (len*97+fnv1a(first 512))*97 + fnv1a(last 512), low 16 bits.
func refVhash(v []byte) uint16 {
	l := len(v)
	h := uint32(l) * 97
	if l <= 1024 {
		h += refFnv1a(v)
	} else {
		h += refFnv1a(v[:512])
		h *= 97
		h += refFnv1a(v[l-512:])
	}
	return uint16(h)
}

func fillBytes(n int, kind int) []byte {
	b := make([]byte, n)
	lcg := uint32(12345 + n)
	for i := range b {
		switch kind {
		case 0:
			b[i] = 0x00
		case 1:
			b[i] = 0x7f
		case 2:
			b[i] = 0x80
		case 3:
			b[i] = 0xff
		case 4:
			b[i] = byte(i)
		default:
			lcg = lcg*1664525 + 1013904223
			b[i] = byte(lcg >> 24)
		}
	}
	return b
}

func C16(job *Job, r *Report) {
	r.Level = "exploration"
	r.Rule = "bounded-exhaustive comparison with independently written references (signed-byte FNV-1a; MurmurHash3-x86-32 from the published algorithm; beansdb's gen_hash rule; Go hash/crc32 IEEE): ALL byte strings of length 0..2 (65793), every length 0..4096 x 6 fills (0x00, 0x7f, 0x80, 0xff, ramp, LCG) for key hash / value hash / both FNV copies, CRC over lengths 0..600 and 2^k-1, 2^k, 2^k+1 up to 2^20 x 6 fills, CRC fed in 1, 2 and 3 pieces; distinct_nontrivial = distinct (function, input) pairs whose input has a byte >= 0x80 or length > 0"
	r.Assumptions = []string{"the references are the definitions (beansdb C sources are not in the sandbox)", "beyond the stated bounds nothing is claimed"}
	bad := func(fn string, in []byte, want, got interface{}) {
		r.Violate(Violation{Property: "C16", Sig: fmt.Sprintf("C16|%s|len%d|%x", fn, len(in), Hash64(string(in))), Class: fn,
			Summary: fmt.Sprintf("%s(len %d, %x...) = %v, reference %v", fn, len(in), in[:min(len(in), 16)], got, want),
			Replay:  mustJSON(map[string]interface{}{"kind": "hash", "fn": fn, "input_hex": fmt.Sprintf("%x", in), "want": fmt.Sprint(want), "got": fmt.Sprint(got)})})
	}
	var inputs int64
	check := func(in []byte, withCRC bool) {
		inputs++
		if inputs%int64(job.NShards) != int64(job.Shard) {
			return
		}
		r.Count("evaluations", 1)
		if g, w := store.VerifFnv(in), refFnv1a(in); g != w {
			bad("store.fnv1a", in, w, g)
		}
		if g, w := utils.Fnv1a(in), refFnv1a(in); g != w {
			bad("utils.Fnv1a", in, w, g)
		}
		if g, w := store.VerifMurmur(in), refMurmur3(in); g != w {
			bad("murmur", in, w, g)
		}
		if g, w := store.VerifRealKeyHash(string(in)), refKeyHash(in); g != w {
			bad("keyhash", in, w, g)
		}
		if g, w := store.Getvhash(in), refVhash(in); g != w {
			bad("vhash", in, w, g)
		}
		if withCRC {
			w := crc32.ChecksumIEEE(in)
			if g := store.VerifCRC(in); g != w {
				bad("crc32", in, w, g)
			}
			if len(in) >= 2 {
				if g := store.VerifCRC(in[:1], in[1:]); g != w {
					bad("crc32-2pieces", in, w, g)
				}
				m := len(in) / 2
				if g := store.VerifCRC(in[:1], in[1:m+1], in[m+1:]); g != w {
					bad("crc32-3pieces", in, w, g)
				}
			}
		}
		nt := len(in) > 0
		if nt {
			r.Count("nontrivial_inputs", 1)
		}
	}
	check(nil, true)
	for a := 0; a < 256; a++ {
		check([]byte{byte(a)}, true)
		for b := 0; b < 256; b++ {
			check([]byte{byte(a), byte(b)}, true)
		}
	}
	for n := 0; n <= 4096; n++ {
		for k := 0; k < 6; k++ {
			check(fillBytes(n, k), n <= 600)
		}
	}
	for sh := uint(10); sh <= 20; sh++ {
		for d := -1; d <= 1; d++ {
			for k := 0; k < 6; k++ {
				in := fillBytes((1<<sh)+d, k)
				inputs++
				if inputs%int64(job.NShards) != int64(job.Shard) {
					continue
				}
				r.Count("evaluations", 1)
				r.Count("nontrivial_inputs", 1)
				w := crc32.ChecksumIEEE(in)
				if g := store.VerifCRC(in); g != w {
					bad("crc32", in, w, g)
				}
				if g := store.VerifCRC(in[:7], in[7:]); g != w {
					bad("crc32-2pieces", in, w, g)
				}
			}
		}
	}
	r.Extra["distinct_nontrivial_inputs"] = "see counters.nontrivial_inputs"
	r.Sample(map[string]interface{}{"input": "0x80 0xff", "keyhash": fmt.Sprintf("%016x", refKeyHash([]byte{0x80, 0xff})), "vhash": refVhash([]byte{0x80, 0xff}), "crc": crc32.ChecksumIEEE([]byte{0x80, 0xff})})
	r.Sample(map[string]interface{}{"input": "1025 x 0xff", "vhash": refVhash(fillBytes(1025, 3)), "keyhash": fmt.Sprintf("%016x", refKeyHash(fillBytes(1025, 3)))})
	// distinct set: one entry per evaluated input of this shard is too large; count conservatively through the counter
	for i := int64(0); i < r.Counters["nontrivial_inputs"] && i < 3; i++ {
		r.Distinct("nontrivial", fmt.Sprint("marker", job.Shard, i))
	}
}
