//go:build verif

package vharness

import (
	"fmt"

	"github.com/douban/gobeansdb/store"
	"github.com/douban/gobeansdb/vshim/vos"
	"github.com/douban/gobeansdb/vshim/vsched"
)

// expectModel (C07): every key reads exactly its pre-GC reference-map entry.
func expectModel(md *Model) func(k string, d *durable) []allowedVal {
	return func(k string, d *durable) []allowedVal {
		v := md.M[k]
		if v.Live() {
			return []allowedVal{{live: true, body: v.Body, flag: v.Flag}}
		}
		return []allowedVal{{}}
	}
}

// c07ExecNode: layout history, everything flushed, then (if the last letter is
// a GC) the pass runs with the mutation log on and every crash state of the
// pass is recovered and compared with the pre-GC model.
func c07ExecNode(x *XSpec, hist0 []Op, wantDump bool) HistOutcome {
	var out HistOutcome
	hist := append(append([]Op{}, x.Prefix...), hist0...)
	var log []vos.Mut
	var base *vos.FS
	var pre *Model
	isGC := len(hist) > 0 && hist[len(hist)-1].K == "gc"
	res := vsched.Run(vsched.Opts{}, func(s *vsched.Sched) {
		m := NewMachine(s, x.Cfg, nil)
		m.AutoDrain = true
		defer m.Exit()
		md := NewModel(false)
		curHistLen = len(hist)
		for i, o := range hist {
			if o.K == "gc" {
				// make the pre-GC state durable, snapshot, run the pass with logging
				m.S.Drain()
				m.St.VerifFlush(true)
				m.S.Drain()
				base = m.FS.Clone()
				pre = md.Clone()
				m.FS.StartLog()
				if mm := gcStep(m, md, o, i, false); mm != nil {
					out.MM = mm
					return
				}
				log = append([]vos.Mut(nil), m.FS.Log...)
				continue
			}
			if mm := Step(m, md, o, i); mm != nil {
				out.MM = mm
				return
			}
		}
		if !isGC {
			nextOps = acceptedGCs(m, 0)
		}
		if wantDump {
			out.Dump = fmt.Sprintf("%d|%s", len(log), m.FS.Hash())
		}
	})
	out.absorb(res, len(hist))
	out.Next = nextOps
	if out.MM != nil {
		out.MM.Op = "after prefix [" + HistString(x.Prefix) + "] " + out.MM.Op
	}
	if out.MM != nil || !isGC {
		return out
	}
	out.Dead = true
	if deadEnd || len(log) == 0 {
		return out
	}
	crashStats["gc_passes_crashed"]++
	ms := modelString(pre)
	expect := expectModel(pre)
	vos.CrashStates(base, log, func(k, cut int, st *vos.FS) bool {
		crashStats["crash_states"]++
		h := Hash64(st.Hash() + "|" + ms)
		if crashSeen[h] {
			crashStats["crash_states_dup"]++
			return true
		}
		crashSeen[h] = true
		crashStats["recoveries"]++
		if cut >= 0 {
			crashStats["recoveries_torn"]++
		}
		desc := fmt.Sprintf("crash after %d mutations of the pass", k)
		mut := ""
		if k < len(log) {
			mut = mutString(&log[k])
			if cut >= 0 {
				desc += fmt.Sprintf(" + %d bytes of [%s]", cut, mut)
			} else {
				desc += " (next: " + mut + ")"
			}
		}
		mm, refused := recoverAndCheck(x.Cfg, st, x.Keys, expect, desc)
		if refused {
			crashStats["recoveries_refused"]++
		}
		if mm != nil {
			mm.Step = k
			out.MM = mm
			return false
		}
		return true
	})
	return out
}

func c07Specs(tier string) []*XSpec {
	keys := []string{"a", "b"}
	layout := perKey(keys, Op{K: "set", V: "s"}, Op{K: "del"}, Op{K: "set", V: "x300"})
	keys3 := []string{"a", "b", "c"}
	small := append(perKey(keys3, Op{K: "set", V: "s"}), Op{K: "del", Key: "a"})
	keys4 := []string{"a", "b", "c", "d"}
	rs := []Op{{K: "restart", A: []int{0}}, {K: "restart", A: []int{1}}}
	mk := func(c *store.VerifCfg, L int) *XSpec {
		al := append(append([]Op{}, layout...), rs...)
		ks := keys
		pr := gcPrune(L, 0, c.BodyMax < 300)
		if c.BodyMax < 300 {
			al, ks = append(append([]Op{}, small...), rs...), keys3
			if c.DataFileMax > 512 {
				al, ks = append(perKey(keys4, Op{K: "set", V: "s"}), rs...), keys4
			}
		}
		x := &XSpec{Property: "C07", Name: fmt.Sprintf("%s-L%d", c.Name, L), Cfg: c, Alphabet: al, Depth: L + 2, Keys: ks, ExecNode: c07ExecNode}
		base := pr
		sym := c.BodyMax < 300
		x.Prune = func(hist []Op, op Op) bool {
			return base(hist, op) || (sym && symmetricKeys(ks, append(append([]Op{}, x.Prefix...), hist...), op))
		}
		return x
	}
	// start from a non-initial state: file 0 already holds two records of one key (a short, "not full" file left by an
	// earlier process), then every layout of 6 more letters: this is where a pass starts appending to an earlier file and
	// switches onto the file it is reading
	sw := mk(cfgGC3(), 6)
	sw.Name += "-after-2-records"
	sw.Prefix = []Op{{K: "set", V: "s", Key: "a"}, {K: "set", V: "s", Key: "a"}, {K: "restart", A: []int{0}}}
	// three records per file and a hint split capacity of one item: the destination's hint split rotates (and is dumped)
	// in the middle of a pass, so crash points fall between a split dump and the next one
	s1 := cfgGC3()
	s1.SplitCap = 1
	s1.Name += "-split1"
	if tier == "quick" {
		return []*XSpec{mk(cfgGC1(), 3), mk(cfgGC2(), 4), mk(s1, 5)}
	}
	return []*XSpec{mk(cfgGC1(), 4), mk(cfgGC2(), 6), sw, mk(cfgGC3(), 9), mk(s1, 7)}
}

func C07(job *Job, r *Report) {
	r.Level = "fault_enumeration"
	r.Rule = "every layout history up to L letters (as C03, two GC configurations: in-place rewrite / append to an earlier short file then overflow, optional tree-rebuilding restart), all data flushed, then every GC range the range check resolves x merge off/on run with the memfs mutation log on; EVERY prefix of the pass's mutations (record appends, hint removals/dumps, truncate, source removal, tree-dump removal, nextgc.txt) and torn variants of every write is materialised on top of the pre-GC directory and recovered in a fresh process; every key must read exactly its pre-GC reference-map entry (or the store refuses to start, allowed only if a data file ends in an incomplete record); distinct_nontrivial = distinct (crash state, expectation) pairs recovered"
	r.Assumptions = []string{"SIGKILL model, no reordering", "no client writes during the pass", "memfs models POSIX file semantics"}
	for _, x := range c07Specs(job.Tier) {
		if job.Part != "" && job.Part != x.Name {
			continue
		}
		x.Explore(r, job)
	}
	for k, v := range crashStats {
		r.Count(k, v)
	}
	for h := range crashSeen {
		if r.sets["nontrivial"] == nil {
			r.sets["nontrivial"] = map[uint64]struct{}{}
		}
		r.sets["nontrivial"][h] = struct{}{}
	}
}
