//go:build verif

package vharness

import (
	"fmt"
	"sort"
	"strconv"
	"strings"

	"github.com/douban/gobeansdb/store"
)

// Op is one letter of a sequential history.
type Op struct {
	K    string `json:"k"`             // set, del, incr, flush, flushp, bg, restart, dump, merge, gc, get, ...
	Key  string `json:"key,omitempty"` // key name
	V    string `json:"v,omitempty"`   // value class
	Flag uint32 `json:"flag,omitempty"`
	Rev  int    `json:"rev,omitempty"` // 0 none, +n => |cur|+n, -1 => stale (|cur| or 1)
	A    []int  `json:"a,omitempty"`   // arguments (restart: index subset mask; gc: begin,end,merge)
}

func (o Op) String() string {
	s := o.K
	if o.Key != "" {
		s += ":" + o.Key
	}
	if o.V != "" {
		s += ":" + o.V
	}
	if o.Flag != 0 {
		s += fmt.Sprintf(":f%x", o.Flag)
	}
	if o.Rev != 0 {
		s += fmt.Sprintf(":r%+d", o.Rev)
	}
	for _, a := range o.A {
		s += fmt.Sprintf(":%d", a)
	}
	return s
}

func HistString(h []Op) string {
	p := make([]string, len(h))
	for i, o := range h {
		p[i] = o.String()
	}
	return strings.Join(p, " ")
}

// MVal is the reference model's view of one key.
type MVal struct {
	Body []byte
	Flag uint32
	Ver  int32 // >0 live, <0 tombstone
	TS   uint32
	// VerAlt: the version of the record on disk when Ver was set by a
	// tree-only update (check_vhash + explicit revision); after a restart the
	// store may legally report either (C02), resolved by Adopt.
	VerAlt []int32
	// Forgot: tombstone that a rebuilt tree no longer knows (C02/C03: versions
	// of deleted keys are not compared); version arithmetic restarts at 0.
	Forgot bool
	// VerFree: version is not comparable at all (colliding keys).
	VerFree bool
}

func (v *MVal) Live() bool { return v != nil && v.Ver > 0 }

// Model is the plain reference map.
type Model struct {
	M          map[string]*MVal
	CheckVHash bool
	NextID     int
}

func NewModel(checkVHash bool) *Model {
	return &Model{M: map[string]*MVal{}, CheckVHash: checkVHash}
}

func (m *Model) Keys() []string {
	ks := make([]string, 0, len(m.M))
	for k := range m.M {
		ks = append(ks, k)
	}
	sort.Strings(ks)
	return ks
}

func abs32(v int32) int32 {
	if v < 0 {
		return -v
	}
	return v
}

// ConcreteRev turns the relative revision of op into the number sent.
func (m *Model) ConcreteRev(o Op) int {
	cur := abs32(m.M[o.Key].base())
	switch {
	case o.Rev > 0:
		return int(cur) + o.Rev
	case o.Rev == -2:
		// strictly smaller than the current version (if there is room)
		if cur <= 1 {
			return 1
		}
		return int(cur) - 1
	case o.Rev < 0:
		if cur == 0 {
			return 1
		}
		return int(cur)
	}
	return 0
}

func (v *MVal) base() int32 {
	if v == nil || v.Forgot {
		return 0
	}
	return v.Ver
}

// Set applies a set and returns the expected reply status.
func (m *Model) Set(key string, body []byte, flag uint32, rev int, ts uint32) string {
	old := m.M[key]
	oldv := old.base()
	if m.CheckVHash && old != nil && old.Ver > 0 && string(old.Body) == string(body) && old.Flag == flag {
		if rev != 0 && abs32(int32(rev)) > abs32(oldv) {
			// tree-only version update; the record on disk keeps its version
			old.VerAlt = appendUniq(old.VerAlt, old.Ver)
			old.Ver = int32(rev)
		}
		return "STORED"
	}
	var ver int32
	if rev == 0 {
		ver = abs32(oldv) + 1
	} else {
		if abs32(int32(rev)) <= abs32(oldv) {
			return "STORED" // rejected silently: the server answers STORED and keeps the old value
		}
		ver = int32(rev)
	}
	nv := &MVal{Body: append([]byte(nil), body...), Flag: flag, Ver: ver, TS: ts}
	if old != nil {
		nv.VerFree = old.VerFree
	}
	m.M[key] = nv
	return "STORED"
}

func (m *Model) Delete(key string, ts uint32) string {
	old := m.M[key]
	if old == nil || old.Ver < 0 {
		return "NOT_FOUND"
	}
	nv := &MVal{Ver: -(abs32(old.Ver) + 1), TS: ts, VerFree: old.VerFree}
	m.M[key] = nv
	return "DELETED"
}

// Incr follows the implementation's rule (pinned from the code, see DESIGN C01).
func (m *Model) Incr(key string, n int, ts uint32) string {
	old := m.M[key]
	ver := int32(1)
	val := n
	if old != nil && old.Ver > 0 {
		if old.Flag != store.FLAG_INCR {
			return "0"
		}
		if len(old.Body) > 22 {
			return "0"
		}
		v, err := strconv.Atoi(string(old.Body))
		if err != nil {
			return "0"
		}
		ver += old.Ver
		val += v
	}
	nv := &MVal{Body: []byte(strconv.Itoa(val)), Flag: store.FLAG_INCR, Ver: ver, TS: ts}
	if old != nil {
		nv.VerFree = old.VerFree
	}
	m.M[key] = nv
	return strconv.Itoa(val)
}

func appendUniq(a []int32, x int32) []int32 {
	for _, y := range a {
		if y == x {
			return a
		}
	}
	return append(a, x)
}

// Clone deep-copies the model.
func (m *Model) Clone() *Model {
	n := &Model{M: make(map[string]*MVal, len(m.M)), CheckVHash: m.CheckVHash, NextID: m.NextID}
	for k, v := range m.M {
		c := *v
		c.Body = append([]byte(nil), v.Body...)
		c.VerAlt = append([]int32(nil), v.VerAlt...)
		n.M[k] = &c
	}
	return n
}
