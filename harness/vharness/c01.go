//go:build verif

package vharness

import (
	"strings"

	"github.com/douban/gobeansdb/store"
	"github.com/douban/gobeansdb/vshim/vsched"
)

// Forced key hashes: a and b share a leaf, c lives in another bucket/leaf.
var hashAB = map[string]uint64{
	"a": 0xab12345678abcdef,
	"b": 0xab1fedcba9876543,
	"c": 0x3c00000000000001,
}

func cfgK1() *store.VerifCfg {
	return &store.VerifCfg{Name: "b1-h3-f512-s2", NumBucket: 1, TreeHeight: 3, DataFileMax: 512, SplitCap: 2, BufIOCap: 4096,
		BodyMax: 64 << 10, BodyInC: 64, MaxReq: 3, Hash: hashAB}
}

// cfgK1s: 4 records per data file but hint splits of 2 items, so a split rotates (and is dumped) inside a chunk
func cfgK1s() *store.VerifCfg {
	return &store.VerifCfg{Name: "b1-h3-f1024-s2-3keys", NumBucket: 1, TreeHeight: 3, DataFileMax: 1024, SplitCap: 2, BufIOCap: 4096,
		BodyMax: 64 << 10, BodyInC: 64, MaxReq: 3, Hash: hashAB}
}
func cfgK16() *store.VerifCfg {
	return &store.VerifCfg{Name: "b16-h2-vhash-f768-s1024", NumBucket: 16, Served: []int{0xa}, TreeHeight: 2, CheckVHash: true,
		DataFileMax: 768, SplitCap: 1024, BufIOCap: 4096, BodyMax: 64 << 10, BodyInC: 64, MaxReq: 3, Hash: hashAB}
}
func cfgK256() *store.VerifCfg {
	return &store.VerifCfg{Name: "b256-h3-fdef-s2", NumBucket: 256, Served: []int{0xab}, TreeHeight: 3,
		SplitCap: 2, BufIOCap: 4096, BodyMax: 64 << 10, BodyInC: 4096, MaxReq: 3, Hash: hashAB}
}

func perKey(keys []string, ops ...Op) []Op {
	var out []Op
	for _, o := range ops {
		for _, k := range keys {
			c := o
			c.Key = k
			out = append(out, c)
		}
	}
	return out
}

func c01Exec(x *XSpec, s *vsched.Sched, hist []Op, wantDump bool) (*Mismatch, string) {
	m := NewMachine(s, x.Cfg, nil)
	defer m.Exit()
	md := NewModel(x.Cfg.CheckVHash)
	for i, o := range hist {
		if mm := Step(m, md, o, i); mm != nil {
			return mm, ""
		}
	}
	if mm := Battery(m, md, x.Keys, len(hist), BatteryOpts{TombVerExact: true}); mm != nil {
		return mm, ""
	}
	if wantDump {
		return nil, m.Dump()
	}
	return nil, ""
}

func C01(job *Job, r *Report) {
	for _, x := range c01Specs(job.Tier) {
		if job.Part != "" && job.Part != x.Name {
			continue
		}
		x.Explore(r, job)
	}
	r.Level = "model_checking"
	r.Rule = "every sequence of mutating operations up to the stated depth over the stated alphabet (DFS, simplest letter first), each executed on a fresh real store on memfs; after each history the full read battery (get, ?key, ??key, memory-only lookup, multi-get through the memcached text protocol) is compared with the reference map; distinct = distinct canonical dumps of (tree items, buffers, hint splits, collision table, memfs content hash)"
	r.Assumptions = []string{"incr version rule pinned from the implementation (absent/tombstone -> version 1)", "a set with a stale explicit revision is answered STORED and ignored (as implemented)", "memfs models POSIX file semantics (validated by OS replay)", "cgo calls are atomic"}
}

func c01Specs(tier string) []*XSpec {
	keys := []string{"a", "b"}
	base := perKey(keys,
		Op{K: "set", V: "s"},
		Op{K: "del"},
		Op{K: "set", V: "r257"},
		Op{K: "set", V: "x300"},
		Op{K: "incr"},
		Op{K: "set", V: "s", Rev: 3},
		Op{K: "set", V: "s", Rev: -1},
		Op{K: "setsame"},
	)
	glob := []Op{{K: "flush"}, {K: "bg"}}
	quickAlpha := append(append([]Op{}, base...), glob...)
	var specs []*XSpec
	if tier == "quick" {
		for _, c := range []*store.VerifCfg{cfgK1(), cfgK16(), cfgK256()} {
			al := quickAlpha
			if c.CheckVHash {
				al = append(append([]Op{}, quickAlpha...), perKey(keys, Op{K: "set", V: "hA"}, Op{K: "set", V: "hB"})...)
				al = append(al, Op{K: "set", V: "vh0", Key: "a"}, Op{K: "setsame", Key: "a", Rev: -2}, Op{K: "setsame", Key: "a", Rev: 3})
			}
			specs = append(specs, &XSpec{Property: "C01", Name: c.Name, Cfg: c, Alphabet: al, Depth: 4, Keys: keys, Exec: c01Exec})
		}
	} else {
		full := append(append([]Op{}, quickAlpha...), perKey(keys,
			Op{K: "set", V: "r256"},
			Op{K: "set", V: "n"},
			Op{K: "set", V: "wave"},
			Op{K: "set", V: "s", Flag: 0x10},
			Op{K: "setsame", Rev: 3},
			Op{K: "setsame", Rev: -1},
			Op{K: "setsame", Rev: -2},
			Op{K: "set", V: "s", Rev: -2},
			Op{K: "setsame", Flag: 0x10},
			Op{K: "set", V: "hA"}, Op{K: "set", V: "hB"}, Op{K: "set", V: "vh0"},
		)...)
		full = append(full, Op{K: "flushp"})
		for _, c := range []*store.VerifCfg{cfgK1(), cfgK16(), cfgK256()} {
			specs = append(specs, &XSpec{Property: "C01", Name: c.Name, Cfg: c, Alphabet: full, Depth: 4, Keys: keys, Exec: c01Exec})
		}
		for _, c := range []*store.VerifCfg{cfgK1(), cfgK16()} {
			specs = append(specs, &XSpec{Property: "C01", Name: c.Name + "-d5", Cfg: c, Alphabet: quickAlpha, Depth: 5, Keys: keys, Exec: c01Exec})
		}

	}
	lkDepth := 3
	if tier != "quick" {
		lkDepth = 4
	}
	// a 250-byte key (the longest valid one) under the real hash, together with a short key, big and empty values
	long := strings.Repeat("K", 250)
	lk := []string{long, "z"}
	la := perKey(lk, Op{K: "set", V: "s"}, Op{K: "set", V: "e"}, Op{K: "set", V: "c10241"}, Op{K: "del"}, Op{K: "incr"})
	la = append(la, Op{K: "flush"}, Op{K: "bg"})
	cl := cfgK1()
	cl.Name = "b1-h3-longkey-realhash"
	cl.Hash = nil
	cl.DataFileMax = 12 << 10
	specs = append(specs, &XSpec{Property: "C01", Name: cl.Name, Cfg: cl, Alphabet: la, Depth: lkDepth, Keys: lk, Exec: c01Exec})
	return specs
}
