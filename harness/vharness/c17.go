//go:build verif

package vharness

import (
	"fmt"
	"sort"
	"strings"

	"github.com/douban/gobeansdb/store"
	"github.com/douban/gobeansdb/vshim/vos"
	"github.com/douban/gobeansdb/vshim/vsched"
	"github.com/douban/gobeansdb/vshim/vtime"
)

// ---------------------------------------------------------------- part (b): two concurrent requests

type gcReq struct {
	call, ret uint64
	err       error
}

func c17bScenarios() []*Scenario {
	var out []*Scenario
	mk := func(name string, nreq int) {
		c := cfgSched(name)
		out = append(out, &Scenario{Property: "C17", Name: name, Cfg: c, Run: func(sc *Scenario, s *vsched.Sched) (*Mismatch, string) {
			m := NewMachine(s, sc.Cfg, nil)
			defer m.Exit()
			rec := &Recorder{st: m.St}
			gcLayout(m, rec)
			reqs := make([]gcReq, nreq)
			var threads []func()
			for i := 0; i < nreq; i++ {
				i := i
				threads = append(threads, func() {
					reqs[i].call = s.Steps()
					_, _, reqs[i].err = m.St.GC(0, 0, 1, 0, false, false)
					reqs[i].ret = s.Steps()
				})
			}
			s.Parallel(threads...)
			// passes = goroutines spawned by HStore.GC during the parallel phase
			var passes []vsched.ThreadEvent
			minCall := reqs[0].call
			for _, q := range reqs {
				if q.call < minCall {
					minCall = q.call
				}
			}
			for _, ev := range s.Events() {
				if strings.HasPrefix(ev.Name, "hstore.go:") && ev.Start > 0 && ev.Start >= minCall {
					passes = append(passes, ev)
				}
			}
			var sb strings.Builder
			acc := 0
			for i, q := range reqs {
				fmt.Fprintf(&sb, "req%d[%d-%d]=%v;", i, q.call, q.ret, q.err == nil)
				if q.err == nil {
					acc++
				}
			}
			for _, p := range passes {
				fmt.Fprintf(&sb, "pass[spawned %d, ran %d-%d];", p.Spawn, p.Start, p.End)
			}
			obs := sb.String()
			if acc == 0 {
				return &Mismatch{Op: "gc-requests", Where: "requests", Want: "at least one accepted", Got: obs, Class: "gc-all-refused"}, obs
			}
			// two passes inside gcMgr.gc at once
			for i := range passes {
				for j := range passes {
					if i < j && passes[i].Start < passes[j].End && passes[j].Start < passes[i].End {
						return &Mismatch{Op: "gc-requests", Where: "passes", Want: "at most one pass at a time", Got: obs, Class: "gc-two-passes-overlap"}, obs
					}
				}
			}
			// a request accepted while an earlier accepted request's pass had not ended
			var accepted []gcReq
			for _, q := range reqs {
				if q.err == nil {
					accepted = append(accepted, q)
				}
			}
			sort.Slice(accepted, func(i, j int) bool { return accepted[i].ret < accepted[j].ret })
			sort.Slice(passes, func(i, j int) bool { return passes[i].Start < passes[j].Start })
			// The goroutine of a pass is spawned right after its request was accepted and ends right after the pass has
			// unregistered itself, so [spawn, end] of the pass goroutines (observed by the scheduler) are the in-progress
			// windows: a pass spawned inside the window of another one means its request was accepted while that pass was
			// in progress (with an atomic check-and-register this cannot happen).
			sort.Slice(passes, func(i, j int) bool { return passes[i].Spawn < passes[j].Spawn })
			for i := 0; i+1 < len(passes); i++ {
				if passes[i].End == 0 || passes[i+1].Spawn < passes[i].End {
					return &Mismatch{Op: "gc-requests", Where: "requests", Want: "second request refused while a pass is in progress", Got: obs, Class: "gc-second-request-accepted"}, obs
				}
			}
			if len(passes) != len(accepted) {
				return &Mismatch{Op: "gc-requests", Where: "requests", Want: "one pass per accepted request", Got: obs, Class: "gc-accepted-without-pass"}, obs
			}
			if g := m.St.VerifLastGC(0); g != nil && g.Err != nil {
				return &Mismatch{Op: "gc", Where: "pass", Want: "no error", Got: g.Err.Error(), Class: "gc-error"}, obs
			}
			if mm := CheckFinal(m.St, rec.Ops, "final"); mm != nil {
				return mm, obs
			}
			return nil, obs
		}})
	}
	mk("R2-two-gc-requests", 2)
	mk("R3-three-gc-requests", 3)
	return out
}

var _ = vos.New
var _ = vtime.Now
var _ = store.MAX_NUM_CHUNK

func C17(job *Job, r *Report) {
	r.Level = "model_checking"
	r.Rule = "part (a): every store layout of 1..5 (thorough 6) data-file slots, each a gap / a full file / a half file (last slot a real file), x 6 first-record-timestamp patterns (all old, all recent, last recent, last two recent, first recent = non-monotone, every full file old-then-recent) x head {empty, one unflushed record, one flushed record}, built directly as data files (index files are rebuilt); on each: ALL (start,end) in [-1..7]^2 x no_gc_days {-1 and -2 (both mean: the configured 2 days), 0, 1, 10000} x merge off/on with pretend=true (mutation log must stay empty), every refused tuple repeated with pretend=false (must be refused and change nothing), and one real pass per distinct (resolved range, merge, days) judged on the memfs mutation log by the property's own rules: no mutation of the head data file or later, nothing outside [start,end] except appends to a single earlier file, the next non-empty file after end older than the limit; the process that ran the pass has answered pretend requests for every end before it and is asked again afterwards (every end x 3 day values): what it accepts then must respect the age limit judged on the files as they are after the pass. part (b): two and three HStore.GC requests for one bucket from concurrent threads on a store where the range [0,1] is collectable; every interleaving at lock acquisitions, file-system calls and spawns with at most N preemptions (quick 2, thorough 3); a pass is in progress from the acceptance of its request until its goroutine has left gcMgr.gc (thread life observed by the scheduler); violation: two passes overlap, or a second request is accepted inside that window"
	r.Assumptions = []string{"sequentially consistent interleavings at synchronisation/file-system granularity"}
	pb := 2
	if job.Tier != "quick" {
		pb = 3
	}
	if job.Part == "" || job.Part == "b" {
		runScenarios(&Job{Check: job.Check, Tier: job.Tier, Shard: job.Shard, NShards: job.NShards, Seed: job.Seed}, r, c17bScenarios(), []int{pb}, -1)
	}
	if job.Part == "" || job.Part == "a" {
		C17a(job, r)
	}
}

// ---------------------------------------------------------------- part (a): arguments x layouts

type fileSpec struct {
	kind   int  // 0 gap, 1 full (2 records), 2 half (1 record)
	recent bool // first-record timestamp younger than the age limit
	mixed  bool // full file: first record old, second record younger than the age limit
}

type gcLayoutSpec struct {
	files []fileSpec
	head  int // 0 empty, 1 one unflushed record, 2 one flushed record
}

func (l gcLayoutSpec) String() string {
	var sb strings.Builder
	for _, f := range l.files {
		c := "-FH"[f.kind : f.kind+1]
		if f.recent && f.kind != 0 {
			c = strings.ToLower(c)
		}
		if f.mixed && f.kind == 1 {
			c = "M"
		}
		sb.WriteString(c)
	}
	return sb.String() + "/head" + fmt.Sprint(l.head)
}

func cfgArgs() *store.VerifCfg {
	return &store.VerifCfg{Name: "gcargs", NumBucket: 1, TreeHeight: 3, DataFileMax: 512, SplitCap: 1024, BufIOCap: 4096,
		BodyMax: 255, BodyInC: 4096, MaxReq: 3, NoGCDays: 2} // body_max below the file size: a half file counts as "not full" and is a legal append destination
}

// buildLayout writes data files directly (index files are caches and get rebuilt).
func buildLayout(l gcLayoutSpec) *vos.FS {
	fs := vos.New()
	now := vtime.Base.Unix()
	n := 0
	for i, f := range l.files {
		if f.kind == 0 {
			continue
		}
		ts := uint32(now - 3*86400 + int64(i))
		if f.recent {
			ts = uint32(now - 3600 + int64(i))
		}
		var img []byte
		nrec := 2
		if f.kind == 2 {
			nrec = 1
		}
		for j := 0; j < nrec; j++ {
			key := fmt.Sprintf("k%d_%d", i, j)
			if j == 0 && i%2 == 0 {
				key = "dup" // the same key in several files: all but the last are superseded
			}
			n++
			rts := ts + uint32(j)
			if f.mixed && f.kind == 1 && j == 1 {
				rts = uint32(now - 3600 + int64(i))
			}
			img = append(img, refEncode(store.VerifRec{Key: key, Body: []byte(fmt.Sprintf("v%d", n)), Ver: int32(n), TS: rts})...)
		}
		fs.WriteFileRaw(fmt.Sprintf("/db/%03d.data", i), img)
	}
	return fs
}

type gcArgs struct {
	start, end, days int
	merge, pretend   bool
}

func c17aLayout(l gcLayoutSpec, r *Report) *Mismatch {
	cfg := cfgArgs()
	base := buildLayout(l)
	desc := l.String()
	type outcome struct {
		b, e int
		err  bool
	}
	// phase 1: on one instance, ask with pretend=true for every argument tuple; refused requests are repeated with pretend=false
	var accepted = map[[4]int][]gcArgs{} // (begin,end,merge,days-class) -> argument tuples resolving to it
	var mm *Mismatch
	var head int
	var fsAtReq *vos.FS
	res := vsched.Run(vsched.Opts{}, func(s *vsched.Sched) {
		m := &Machine{Cfg: cfg, S: s, FS: base.Clone()}
		vos.Attach(m.FS)
		vtime.Enable()
		if err := m.Open(); err != nil {
			mm = &Mismatch{Op: desc, Where: "open", Want: "opens", Got: err.Error(), Class: "open-error"}
			return
		}
		defer m.Exit()
		s.Drain()
		Tick()
		switch l.head {
		case 1:
			m.Cmd(fmtSet("headkey", 0, 0, []byte("head")))
		case 2:
			m.Cmd(fmtSet("headkey", 0, 0, []byte("head")))
			m.St.VerifFlush(true)
		}
		s.Drain()
		Tick()
		head = m.St.VerifNewHead(0)
		fsAtReq = m.FS.Clone()
		m.FS.StartLog()
		for _, days := range []int{-1, -2, 0, 1, 10000} {
			for st := -1; st <= 7; st++ {
				for en := -1; en <= 7; en++ {
					for _, mg := range []bool{false, true} {
						b, e, err := m.St.GC(0, st, en, days, mg, true)
						r.Count("evaluations", 1)
						r.Count("gc_requests_pretend", 1)
						if len(m.FS.Log) != 0 {
							mm = &Mismatch{Op: fmt.Sprintf("%s gc(%d,%d,days=%d,merge=%v,pretend)", desc, st, en, days, mg), Where: "mutation log", Want: "pretend changes nothing", Got: mutString(&m.FS.Log[0]), Class: "gc-pretend-mutates"}
							return
						}
						if err != nil {
							// refused: the real request must be refused too and change nothing
							_, _, err2 := m.St.GC(0, st, en, days, mg, false)
							s.Drain()
							r.Count("evaluations", 1)
							r.Count("gc_requests_refused", 1)
							if err2 == nil {
								mm = &Mismatch{Op: fmt.Sprintf("%s gc(%d,%d,days=%d,merge=%v)", desc, st, en, days, mg), Where: "request", Want: "refused like the pretend request: " + err.Error(), Got: "accepted", Class: "gc-pretend-disagrees"}
								return
							}
							if len(m.FS.Log) != 0 {
								mm = &Mismatch{Op: fmt.Sprintf("%s gc(%d,%d,days=%d,merge=%v)", desc, st, en, days, mg), Where: "mutation log", Want: "a refused request changes nothing", Got: mutString(&m.FS.Log[0]), Class: "gc-refused-mutates"}
								return
							}
							continue
						}
						mgi := 0
						if mg {
							mgi = 1
						}
						k := [4]int{b, e, mgi, days}
						accepted[k] = append(accepted[k], gcArgs{st, en, days, mg, false})
					}
				}
			}
		}
	})
	if res.Aborted != "" {
		return &Mismatch{Op: desc, Where: "process", Want: "runs", Got: res.Aborted + ": " + res.Msg, Class: "process-" + res.Aborted}
	}
	if mm != nil {
		return mm
	}
	// phase 2: one real pass per distinct (resolved range, merge, days) on a fresh process started from the directory as it was
	// at request time (unflushed head data is lost in that copy, which only makes the head file absent or shorter)
	nowAtReq := vtime.Now().Unix()
	for k, args := range accepted {
		a := args[0]
		begin, end := k[0], k[1]
		var log []vos.Mut
		var before map[int][]byte
		var gcBegin, gcEnd int
		var gcErr error
		var head2 int
		var again *Mismatch
		res := vsched.Run(vsched.Opts{}, func(s *vsched.Sched) {
			m := &Machine{Cfg: cfg, S: s, FS: fsAtReq.Clone()}
			vos.Attach(m.FS)
			if err := m.Open(); err != nil {
				gcErr = err
				return
			}
			defer m.Exit()
			s.Drain()
			if l.head == 1 {
				m.Cmd(fmtSet("headkey", 0, 0, []byte("head")))
			}
			head2 = m.St.VerifNewHead(0)
			before = m.dataFiles(0)
			m.FS.StartLog()
			// the same process has answered pretend requests for every end before (as an operator probing ranges would):
			// whatever these leave behind in memory must not influence later decisions
			for en := 0; en <= 6; en++ {
				m.St.GC(0, 0, en, -1, false, true)
				r.Count("evaluations", 1)
				r.Count("gc_requests_pretend_before_pass", 1)
			}
			gcBegin, gcEnd, gcErr = m.St.GC(0, a.start, a.end, a.days, a.merge, false)
			s.Drain()
			log = append([]vos.Mut(nil), m.FS.Log...)
			if gcErr != nil || len(log) == 0 {
				return
			}
			// phase 3: the same process is asked again after the pass (pretend): whatever it accepts now must respect the
			// age limit as judged on the files as they are NOW (a pass may have changed the first record of a file)
			after := m.dataFiles(0)
			nlog := len(m.FS.Log)
			for _, days := range []int{-1, 1, 10000} {
				for en := 0; en <= 6; en++ {
					t0 := vtime.Now().Unix()
					_, e2, err := m.St.GC(0, 0, en, days, false, true)
					r.Count("evaluations", 1)
					r.Count("gc_requests_pretend_after_pass", 1)
					if len(m.FS.Log) != nlog {
						again = &Mismatch{Op: fmt.Sprintf("%s then gc(0,%d,days=%d,pretend)", desc, en, days), Where: "mutation log", Want: "pretend changes nothing", Got: mutString(&m.FS.Log[nlog]), Class: "gc-pretend-mutates"}
						return
					}
					if err != nil {
						continue
					}
					d := days
					if d < 0 {
						d = cfg.NoGCDays
					}
					for id := e2 + 1; id < 998; id++ {
						if dd, ok := after[id]; ok && len(dd) > 0 {
							recs, _ := ScanFile(dd)
							if len(recs) > 0 && !(t0-int64(recs[0].TS) > int64(d)*86400) && !(vtime.Now().Unix()-int64(recs[0].TS) > int64(d)*86400) {
								again = &Mismatch{Op: fmt.Sprintf("%s gc(%d,%d,days=%d,merge=%v) then gc(0,%d,days=%d,pretend) -> end %d", desc, a.start, a.end, a.days, a.merge, en, days, e2), Where: "age limit",
									Want: fmt.Sprintf("file %d (first record now %ds old) protects the range for %d days", id, t0-int64(recs[0].TS), d), Got: "accepted", Class: "gc-age-limit-after-pass"}
								return
							}
							break
						}
					}
				}
			}
		})
		if again != nil {
			return again
		}
		r.Count("evaluations", 1)
		r.Count("gc_passes", 1)
		op := fmt.Sprintf("%s gc(%d,%d,days=%d,merge=%v) -> [%d,%d]", desc, a.start, a.end, a.days, a.merge, begin, end)
		if res.Aborted != "" {
			return &Mismatch{Op: op, Where: "process", Want: "runs", Got: res.Aborted + ": " + res.Msg, Class: "process-" + res.Aborted}
		}
		if gcErr != nil {
			// the reopened process has a different head (a restart starts a new file); a refusal here is not judged
			r.Count("gc_passes_refused_after_reopen", 1)
			continue
		}
		begin, end = gcBegin, gcEnd
		days := a.days
		if days < 0 {
			days = cfg.NoGCDays
		}
		// rule: age limit, judged on the inventory: the next non-empty file after end must be older than the limit
		next := -1
		for id := end + 1; id < 998; id++ {
			if d, ok := before[id]; ok && len(d) > 0 {
				next = id
				break
			}
		}
		if next >= 0 {
			recs, _ := ScanFile(before[next])
			if len(recs) > 0 && !(nowAtReq-int64(recs[0].TS) > int64(days)*86400) && !(vtime.Now().Unix()-int64(recs[0].TS) > int64(days)*86400) {
				return &Mismatch{Op: op, Where: "age limit", Want: fmt.Sprintf("file %d (first record %ds old) protects the range for %d days", next, nowAtReq-int64(recs[0].TS), days), Got: "collected", Class: "gc-age-limit"}
			}
		}
		appendOnly := -1
		for i := range log {
			mu := &log[i]
			if !strings.HasSuffix(mu.Path, ".data") && !strings.HasSuffix(mu.Path2, ".data") {
				continue
			}
			var id int
			p := mu.Path
			fmt.Sscanf(p[strings.LastIndex(p, "/")+1:], "%03d.data", &id)
			if id >= head2 {
				return &Mismatch{Op: op, Where: "mutation log", Want: fmt.Sprintf("head file %d and later untouched", head2), Got: mutString(mu), Class: "gc-touches-head"}
			}
			if id >= begin && id <= end {
				continue
			}
			// outside the range: an EXISTING file may only be appended to, and only one such file; slots that held no
			// file before the pass (gaps below the range) may receive fresh files - nothing existing is rewritten there
			old, existed := before[id]
			if !existed || len(old) == 0 {
				if id < begin && (mu.Op == "create" || mu.Op == "write") {
					continue
				}
				return &Mismatch{Op: op, Where: "mutation log", Want: fmt.Sprintf("nothing outside [%d,%d] except appends to one earlier file / fresh files in gaps below the range", begin, end), Got: mutString(mu), Class: "gc-outside-range"}
			}
			okAppend := id < begin && mu.Op == "write" && int(mu.Off) >= len(old)
			if !okAppend || (appendOnly >= 0 && appendOnly != id) {
				return &Mismatch{Op: op, Where: "mutation log", Want: fmt.Sprintf("nothing outside [%d,%d] except appends to one earlier file", begin, end), Got: mutString(mu), Class: "gc-outside-range"}
			}
			appendOnly = id
		}
		_ = head
	}
	return nil
}

func c17aLayouts(tier string) []gcLayoutSpec {
	maxFiles := 5
	if tier != "quick" {
		maxFiles = 6
	}
	var out []gcLayoutSpec
	for n := 1; n <= maxFiles; n++ {
		total := 1
		for i := 0; i < n; i++ {
			total *= 3
		}
		for x := 0; x < total; x++ {
			kinds := make([]int, n)
			y := x
			nonGap := 0
			for i := 0; i < n; i++ {
				kinds[i] = y % 3
				y /= 3
				if kinds[i] != 0 {
					nonGap++
				}
			}
			if kinds[n-1] == 0 || nonGap == 0 {
				continue // the last slot is a real file (otherwise it is a shorter layout)
			}
			// timestamp patterns: all old, all recent, last recent, last two recent, first recent (non-monotone),
			// and "mixed": every full file starts with an old record followed by a recent one
			for pat := 0; pat < 6; pat++ {
				if pat == 5 && nonGap == 0 {
					continue
				}
				fsx := make([]fileSpec, n)
				for i := range fsx {
					rec := false
					switch pat {
					case 1:
						rec = true
					case 2:
						rec = i == n-1
					case 3:
						rec = i >= n-2
					case 4:
						rec = i == 0
					}
					fsx[i] = fileSpec{kinds[i], rec, pat == 5}
				}
				for head := 0; head < 3; head++ {
					out = append(out, gcLayoutSpec{fsx, head})
				}
			}
		}
	}
	return out
}

func C17a(job *Job, r *Report) {
	unit := 0
	for _, l := range c17aLayouts(job.Tier) {
		mine := unit%job.NShards == job.Shard
		unit++
		if !mine || r.Expired() {
			continue
		}
		r.Count("layouts", 1)
		r.Count("nontrivial_inputs", 1)
		r.Distinct("states", l.String())
		if unit%97 == 0 {
			r.Sample(map[string]interface{}{"layout": l.String(), "args": "all (start,end) in [-1..7]^2 x days {-1,0,1,10000} x merge x pretend"})
		}
		if mm := c17aLayout(l, r); mm != nil {
			cls := mm.Class
			r.Violate(Violation{Property: "C17", Sig: fmt.Sprintf("C17|%s|%s", cls, mm.Op), Class: cls, Summary: mm.String(),
				Replay: mustJSON(map[string]interface{}{"kind": "gcargs", "layout": l.String(), "mismatch": mm})})
		}
	}
}
