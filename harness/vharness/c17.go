//go:build verif

package vharness

import (
	"fmt"
	"sort"
	"strings"

	"github.com/douban/gobeansdb/store"
	"github.com/douban/gobeansdb/vshim/vos"
	"github.com/douban/gobeansdb/vshim/vsched"
	"github.com/douban/gobeansdb/vshim/vtime"
)

// ---------------------------------------------------------------- part (b): two concurrent requests

type gcReq struct {
	call, ret uint64
	err       error
}

func c17bScenarios() []*Scenario {
	var out []*Scenario
	mk := func(name string, nreq int) {
		c := cfgSched(name)
		out = append(out, &Scenario{Property: "C17", Name: name, Cfg: c, Run: func(sc *Scenario, s *vsched.Sched) (*Mismatch, string) {
			m := NewMachine(s, sc.Cfg, nil)
			defer m.Exit()
			rec := &Recorder{st: m.St}
			gcLayout(m, rec)
			reqs := make([]gcReq, nreq)
			var threads []func()
			for i := 0; i < nreq; i++ {
				i := i
				threads = append(threads, func() {
					reqs[i].call = s.Steps()
					_, _, reqs[i].err = m.St.GC(0, 0, 1, 0, false, false)
					reqs[i].ret = s.Steps()
				})
			}
			s.Parallel(threads...)
			// passes = goroutines spawned by HStore.GC during the parallel phase
			var passes []vsched.ThreadEvent
			minCall := reqs[0].call
			for _, q := range reqs {
				if q.call < minCall {
					minCall = q.call
				}
			}
			for _, ev := range s.Events() {
				if strings.HasPrefix(ev.Name, "hstore.go:") && ev.Start > 0 && ev.Start >= minCall {
					passes = append(passes, ev)
				}
			}
			var sb strings.Builder
			acc := 0
			for i, q := range reqs {
				fmt.Fprintf(&sb, "req%d[%d-%d]=%v;", i, q.call, q.ret, q.err == nil)
				if q.err == nil {
					acc++
				}
			}
			for _, p := range passes {
				fmt.Fprintf(&sb, "pass[%d-%d];", p.Start, p.End)
			}
			obs := sb.String()
			if acc == 0 {
				return &Mismatch{Op: "gc-requests", Where: "requests", Want: "at least one accepted", Got: obs, Class: "gc-all-refused"}, obs
			}
			// two passes inside gcMgr.gc at once
			for i := range passes {
				for j := range passes {
					if i < j && passes[i].Start < passes[j].End && passes[j].Start < passes[i].End {
						return &Mismatch{Op: "gc-requests", Where: "passes", Want: "at most one pass at a time", Got: obs, Class: "gc-two-passes-overlap"}, obs
					}
				}
			}
			// a request accepted while an earlier accepted request's pass had not ended
			var accepted []gcReq
			for _, q := range reqs {
				if q.err == nil {
					accepted = append(accepted, q)
				}
			}
			sort.Slice(accepted, func(i, j int) bool { return accepted[i].ret < accepted[j].ret })
			sort.Slice(passes, func(i, j int) bool { return passes[i].Start < passes[j].Start })
			if len(accepted) >= 2 {
				// the first accepted request's pass is the first pass that starts. A pass is surely in progress from the
				// return of its request until its goroutine ends; a later request whose whole [call,return] interval lies
				// inside that window was accepted while the pass was in progress.
				for _, q := range accepted[1:] {
					if len(passes) == 0 || (q.call > accepted[0].ret && (passes[0].End == 0 || q.ret < passes[0].End)) {
						return &Mismatch{Op: "gc-requests", Where: "requests", Want: "second request refused while a pass is in progress", Got: obs, Class: "gc-second-request-accepted"}, obs
					}
				}
			}
			if g := m.St.VerifLastGC(0); g != nil && g.Err != nil {
				return &Mismatch{Op: "gc", Where: "pass", Want: "no error", Got: g.Err.Error(), Class: "gc-error"}, obs
			}
			if mm := CheckFinal(m.St, rec.Ops, "final"); mm != nil {
				return mm, obs
			}
			return nil, obs
		}})
	}
	mk("R2-two-gc-requests", 2)
	mk("R3-three-gc-requests", 3)
	return out
}

var _ = vos.New
var _ = vtime.Now
var _ = store.MAX_NUM_CHUNK

func C17(job *Job, r *Report) {
	r.Level = "model_checking"
	r.Rule = "part (b): two and three HStore.GC requests for one bucket from concurrent threads on a store where the range [0,1] is collectable; every interleaving at lock acquisitions, file-system calls and spawns with at most N preemptions (quick 2, thorough 3); a pass is in progress from the acceptance of its request until its goroutine has left gcMgr.gc (thread life observed by the scheduler); violation: two passes overlap, or a second request is accepted inside that window"
	r.Assumptions = []string{"sequentially consistent interleavings at synchronisation/file-system granularity"}
	pb := 2
	if job.Tier != "quick" {
		pb = 3
	}
	runScenarios(job, r, c17bScenarios(), []int{pb}, -1)
}
