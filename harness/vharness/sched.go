//go:build verif

package vharness

import (
	"fmt"
	"os"
	"sort"
	"strings"
	gosync "sync"

	"github.com/douban/gobeansdb/cmem"
	"github.com/douban/gobeansdb/store"
	"github.com/douban/gobeansdb/vshim/vsched"
	"github.com/douban/gobeansdb/vshim/vsync"
)

// ---------------------------------------------------------------- HStore-level client ops

func hsSet(st *store.HStore, key string, body []byte, flag uint32, rev int32) (int32, error) {
	ki := &store.KeyInfo{StringKey: key, Key: []byte(key)}
	p := &store.Payload{}
	p.Flag = flag
	p.Ver = rev
	p.TS = nowTS()
	if !p.CArray.Alloc(len(body)) {
		return 0, fmt.Errorf("alloc failed")
	}
	copy(p.CArray.Body, body)
	cmem.DBRL.SetData.AddSizeAndCount(p.CArray.Cap)
	err := st.Set(ki, p)
	return p.Ver, err
}

func hsDel(st *store.HStore, key string) (ver int32, found bool, err error) {
	ki := &store.KeyInfo{StringKey: key, Key: []byte(key)}
	p := store.GetPayloadForDelete()
	err = st.Set(ki, p)
	if err != nil {
		if err.Error() == "NOT_FOUND" {
			return 0, false, nil
		}
		return 0, false, err
	}
	return p.Ver, true, nil
}

func hsGet(st *store.HStore, key string) (body string, flag uint32, ver int32, present bool, err error) {
	ki := &store.KeyInfo{StringKey: key, Key: []byte(key)}
	p, _, err := st.Get(ki, false)
	if err != nil || p == nil {
		return "", 0, 0, false, err
	}
	body = string(p.Body)
	flag, ver = p.Flag, p.Ver
	cmem.DBRL.GetData.SubSizeAndCount(p.CArray.Cap)
	p.CArray.Free()
	return body, flag, ver, true, nil
}

// ---------------------------------------------------------------- recorded histories

type RecOp struct {
	T     int    `json:"t"`
	Kind  string `json:"kind"` // set, del, get
	Key   string `json:"key"`
	In    string `json:"in,omitempty"`
	Out   string `json:"out,omitempty"` // get: value
	Ver   int32  `json:"ver"`
	Found bool   `json:"found"`
	Err   string `json:"err,omitempty"`
	Call  int64  `json:"call"`
	Ret   int64  `json:"ret"`
}

type Recorder struct {
	Ops   []RecOp
	clock int64
	st    *store.HStore
	mu    gosync.Mutex // only contended in the free-running -race pass
}

func (r *Recorder) tick() int64 {
	r.mu.Lock()
	defer r.mu.Unlock()
	r.clock++
	return r.clock
}

func (r *Recorder) add(op RecOp) {
	r.mu.Lock()
	r.Ops = append(r.Ops, op)
	r.mu.Unlock()
}

func (r *Recorder) Set(t int, key, val string) {
	op := RecOp{T: t, Kind: "set", Key: key, In: val, Call: r.tick()}
	ver, err := hsSet(r.st, key, []byte(val), 0, 0)
	op.Ver = ver
	op.Found = err == nil
	if err != nil {
		op.Err = err.Error()
	}
	op.Ret = r.tick()
	r.add(op)
}

func (r *Recorder) Del(t int, key string) {
	op := RecOp{T: t, Kind: "del", Key: key, Call: r.tick()}
	ver, found, err := hsDel(r.st, key)
	op.Ver, op.Found = ver, found
	if err != nil {
		op.Err = err.Error()
	}
	op.Ret = r.tick()
	r.add(op)
}

func (r *Recorder) Get(t int, key string) {
	op := RecOp{T: t, Kind: "get", Key: key, Call: r.tick()}
	body, _, ver, present, err := hsGet(r.st, key)
	op.Out, op.Ver, op.Found = body, ver, present
	if err != nil {
		op.Err = err.Error()
	}
	op.Ret = r.tick()
	r.add(op)
}

func abs32i(v int32) int32 {
	if v < 0 {
		return -v
	}
	return v
}

// CheckHistory applies the conditions of C04 to one recorded history.
// prior holds, per key, the writes that completed before the threads started.
// relaxGC: a read overlapping a GC relocation may return an error or a miss (C05).
func CheckHistory(ops []RecOp, relaxGC bool) *Mismatch {
	byKey := map[string][]RecOp{}
	for _, o := range ops {
		byKey[o.Key] = append(byKey[o.Key], o)
	}
	keys := make([]string, 0, len(byKey))
	for k := range byKey {
		keys = append(keys, k)
	}
	sort.Strings(keys)
	for _, k := range keys {
		var writes []RecOp
		for _, o := range byKey[k] {
			if (o.Kind == "set" && o.Err == "") || (o.Kind == "del" && o.Found) {
				writes = append(writes, o)
			}
			if o.Kind != "get" && o.Err != "" {
				return &Mismatch{Op: o.Kind + ":" + k, Where: "write", Key: k, Want: "no error", Got: o.Err, Class: "write-error"}
			}
		}
		// W1 distinct versions, W2 real-time order
		for i, a := range writes {
			for j, b := range writes {
				if i < j && abs32i(a.Ver) == abs32i(b.Ver) {
					return &Mismatch{Op: "writes:" + k, Where: "versions", Key: k, Want: "distinct versions", Got: fmt.Sprintf("two accepted writes got version %d / %d", a.Ver, b.Ver), Class: "dup-version"}
				}
				if a.Ret < b.Call && abs32i(a.Ver) >= abs32i(b.Ver) {
					return &Mismatch{Op: "writes:" + k, Where: "versions", Key: k, Want: "version order follows real time", Got: fmt.Sprintf("write acked at %d has |ver| %d, later write issued at %d has |ver| %d", a.Ret, abs32i(a.Ver), b.Call, abs32i(b.Ver)), Class: "version-order"}
				}
			}
		}
		for _, g := range byKey[k] {
			if g.Kind != "get" {
				continue
			}
			if g.Err != "" {
				if relaxGC {
					continue
				}
				return &Mismatch{Op: "get:" + k, Where: "read", Key: k, Want: "no error", Got: g.Err, Class: "read-error"}
			}
			// vmax: highest version acknowledged before the read began
			var vmax int32
			var wmax *RecOp
			for i := range writes {
				w := &writes[i]
				if w.Ret < g.Call && abs32i(w.Ver) > vmax {
					vmax = abs32i(w.Ver)
					wmax = w
				}
			}
			if !g.Found || g.Ver < 0 {
				// a miss or a tombstone: fine if nothing was acked, or a delete not older than vmax exists
				obs := abs32i(g.Ver)
				if !g.Found {
					// plain miss (no tombstone seen): legal only if no write was acknowledged before the read began
					if wmax != nil {
						ok := false
						for _, w := range writes {
							if w.Kind == "del" && abs32i(w.Ver) >= vmax && w.Call < g.Ret {
								ok = true
							}
						}
						if !ok && !relaxGC {
							return &Mismatch{Op: "get:" + k, Where: "read", Key: k, Want: fmt.Sprintf("value of version >= %d", vmax), Got: "miss", Class: "read-lost"}
						}
					}
					continue
				}
				var src *RecOp
				for i := range writes {
					if writes[i].Kind == "del" && writes[i].Ver == g.Ver && writes[i].Call < g.Ret {
						src = &writes[i]
					}
				}
				if src == nil {
					return &Mismatch{Op: "get:" + k, Where: "read", Key: k, Want: "a tombstone some delete wrote", Got: fmt.Sprintf("tombstone version %d", g.Ver), Class: "read-phantom"}
				}
				if obs < vmax {
					return &Mismatch{Op: "get:" + k, Where: "read", Key: k, Want: fmt.Sprintf("version >= %d", vmax), Got: fmt.Sprintf("tombstone %d", g.Ver), Class: "read-stale"}
				}
				continue
			}
			var src *RecOp
			for i := range writes {
				if writes[i].Kind == "set" && writes[i].In == g.Out && writes[i].Call < g.Ret {
					src = &writes[i]
				}
			}
			if src == nil {
				return &Mismatch{Op: "get:" + k, Where: "read", Key: k, Want: "a value some write stored", Got: clip(g.Out), Class: "read-phantom"}
			}
			if src.Ver != g.Ver {
				return &Mismatch{Op: "get:" + k, Where: "read", Key: k, Want: fmt.Sprintf("version %d of that write", src.Ver), Got: fmt.Sprint(g.Ver), Class: "read-version-mismatch"}
			}
			if g.Ver < vmax {
				return &Mismatch{Op: "get:" + k, Where: "read", Key: k, Want: fmt.Sprintf("version >= %d (acknowledged before the read began)", vmax), Got: fmt.Sprintf("version %d", g.Ver), Class: "read-stale"}
			}
		}
	}
	return nil
}

// CheckFinal: once all clients stopped every key holds the write with the highest version.
func CheckFinal(st *store.HStore, ops []RecOp, where string) *Mismatch {
	type best struct {
		ver int32
		val string
		del bool
	}
	top := map[string]*best{}
	for _, o := range ops {
		if (o.Kind == "set" && o.Err == "") || (o.Kind == "del" && o.Found) {
			b := top[o.Key]
			if b == nil || abs32i(o.Ver) > abs32i(b.ver) {
				top[o.Key] = &best{ver: o.Ver, val: o.In, del: o.Kind == "del"}
			}
		}
	}
	keys := make([]string, 0, len(top))
	for k := range top {
		keys = append(keys, k)
	}
	sort.Strings(keys)
	for _, k := range keys {
		b := top[k]
		body, _, ver, present, err := hsGet(st, k)
		if err != nil {
			return &Mismatch{Op: where + ":" + k, Where: where, Key: k, Want: "no error", Got: err.Error(), Class: where + "-error"}
		}
		if b.del {
			if present && ver > 0 {
				return &Mismatch{Op: where + ":" + k, Where: where, Key: k, Want: fmt.Sprintf("deleted (version %d)", b.ver), Got: fmt.Sprintf("%s ver %d", clip(body), ver), Class: where + "-resurrected"}
			}
			continue
		}
		if !present || ver < 0 {
			return &Mismatch{Op: where + ":" + k, Where: where, Key: k, Want: fmt.Sprintf("%s ver %d", clip(b.val), b.ver), Got: "miss", Class: where + "-lost"}
		}
		if body != b.val {
			return &Mismatch{Op: where + ":" + k, Where: where, Key: k, Want: fmt.Sprintf("%s ver %d", clip(b.val), b.ver), Got: fmt.Sprintf("%s ver %d", clip(body), ver), Class: where + "-wrong"}
		}
		if where == "final" && ver != b.ver {
			return &Mismatch{Op: where + ":" + k, Where: where, Key: k, Want: fmt.Sprintf("ver %d", b.ver), Got: fmt.Sprintf("ver %d", ver), Class: where + "-version"}
		}
	}
	return nil
}

// ---------------------------------------------------------------- scenario + explorer

type Scenario struct {
	Property string
	Name     string
	Cfg      *store.VerifCfg
	// Run prepares the store (deterministic phase), runs the threads under
	// s.Parallel, performs the final checks and returns the first mismatch plus
	// a string describing everything that was observed (for determinism and
	// distinct-outcome counting).
	Run func(sc *Scenario, s *vsched.Sched) (*Mismatch, string)
	// Heavy scenarios (four threads, long loops) are explored with one preemption less than the others.
	Heavy bool
	// post, if set by Run, is evaluated after the scheduler run has ended (it may start runs of its own, e.g. recoveries)
	post func() (*Mismatch, string)
}

type schedOutcome struct {
	res *vsched.Result
	mm  *Mismatch
	obs string
}

func (sc *Scenario) exec(prefix []int, expect []string, yieldOnRelease bool) schedOutcome {
	var o schedOutcome
	vsync.YieldOnRelease = yieldOnRelease
	o.res = vsched.Run(vsched.Opts{Prefix: prefix, Expect: expect, Horizon: 3000}, func(s *vsched.Sched) {
		o.mm, o.obs = sc.Run(sc, s)
	})
	vsync.YieldOnRelease = false
	ConformanceCheck()
	if sc.post != nil {
		if o.mm == nil && o.res.Aborted == "" {
			mm, extra := sc.post()
			o.mm = mm
			o.obs += extra
		}
		sc.post = nil
	}
	if o.res.Aborted != "" && o.res.Aborted != "diverged" {
		o.mm = &Mismatch{Op: "-", Where: "process", Want: "runs to completion", Got: o.res.Aborted + ": " + o.res.Msg, Class: "process-" + o.res.Aborted}
		o.obs += "|" + o.res.Aborted
	}
	return o
}

type schedReplay struct {
	Kind     string    `json:"kind"`
	Check    string    `json:"check"`
	Scenario string    `json:"scenario"`
	Choices  []int     `json:"choices"`
	Trace    []string  `json:"trace"`
	Found    *Mismatch `json:"mismatch"`
	Obs      string    `json:"observations"`
	Stacks   string    `json:"stacks,omitempty"`
	YieldRel bool      `json:"yield_on_release"`
}

func traceOf(res *vsched.Result) []string {
	var out []string
	for _, p := range res.Points {
		mark := ""
		if p.Chosen != 0 && p.CurEnabled {
			mark = " PREEMPT"
		}
		out = append(out, fmt.Sprintf("t%d@%s -> t%d (%d enabled)%s", p.Tid, p.Kind, p.ChosenTid, p.N, mark))
	}
	return out
}

// ExploreSchedules runs the iterative-preemption-bounding DFS over all
// schedules of the scenario with at most `bound` preemptions.
func (sc *Scenario) ExploreSchedules(r *Report, job *Job, bound int, yieldOnRelease bool) {
	unit := 0
	name := fmt.Sprintf("%s/pb%d", sc.Name, bound)
	if yieldOnRelease {
		name += "/rel"
	}
	var maxPoints int
	var rec func(prefix []int, expect []string, depth int, preBefore int)
	rec = func(prefix []int, expect []string, depth int, preBefore int) {
		if r.Expired() {
			return
		}
		own := depth >= 2 || job.Shard == 0
		o := sc.exec(prefix, expect, yieldOnRelease)
		if o.res.Aborted == "diverged" {
			fmt.Fprintf(os.Stderr, "MACHINERY: schedule replay diverged in %s: %s\n", name, o.res.Msg)
			os.Exit(2)
		}
		if own {
			r.Count("evaluations", 1)
			r.Count("transitions", int64(len(o.res.Points)))
			r.Count("schedules_"+name, 1)
			r.Distinct("states", name+"|"+o.obs)
			r.Distinct("nontrivial", name+"|"+o.obs)
			if len(o.res.Points) > maxPoints {
				maxPoints = len(o.res.Points)
			}
			if depth == bound || depth >= 2 {
				r.Sample(map[string]interface{}{"scenario": name, "choices": fmt.Sprint(o.res.Choices), "observed": clip(o.obs)})
			}
			if o.mm != nil {
				// determinism: the same choice list must reproduce the same observations twice
				o2 := sc.exec(o.res.Choices, nil, yieldOnRelease)
				o3 := sc.exec(o.res.Choices, nil, yieldOnRelease)
				if o2.obs != o.obs || o3.obs != o.obs {
					fmt.Fprintf(os.Stderr, "MACHINERY: violation in %s does not replay deterministically\n%s\n%s\n%s\n", name, o.obs, o2.obs, o3.obs)
					os.Exit(2)
				}
				sig := fmt.Sprintf("%s|%s|%s|%s", sc.Property, sc.Name, o.mm.Class, o.mm.Op)
				r.Violate(Violation{Property: sc.Property, Sig: sig, Class: o.mm.Class,
					Summary: fmt.Sprintf("[%s] %s :: choices %v", name, o.mm.String(), o.res.Choices),
					Replay:  mustJSON(schedReplay{Kind: "sched", Check: job.Check, Scenario: sc.Name, Choices: o.res.Choices, Trace: traceOf(o.res), Found: o.mm, Obs: o.obs, Stacks: o.res.Stacks, YieldRel: yieldOnRelease})})
			}
		}
		fps := o.res.Fingerprints()
		// preemptions before point i are recounted over the whole execution (the prefix's own preemptions are in there)
		_ = preBefore
		pre := 0
		for i := 0; i < len(o.res.Points); i++ {
			p := o.res.Points[i]
			if i >= len(prefix) {
				for alt := 1; alt < p.N; alt++ {
					c := pre
					if p.CurEnabled {
						c++
					}
					if c > bound {
						continue
					}
					if depth == 1 {
						mine := unit%job.NShards == job.Shard
						unit++
						if !mine {
							continue
						}
					}
					np := append(append([]int{}, o.res.Choices[:i]...), alt)
					rec(np, fps[:i+1], depth+1, c)
				}
			}
			if p.Chosen != 0 && p.CurEnabled {
				pre++
			}
		}
	}
	rec(nil, nil, 0, 0)
	r.Bounds[name] = map[string]interface{}{"preemption_bound": bound, "max_choice_points": maxPoints, "yield_on_release": yieldOnRelease}
}

// obsString renders a history for outcome counting.
func obsString(ops []RecOp) string {
	var sb strings.Builder
	for _, o := range ops {
		fmt.Fprintf(&sb, "%d:%s:%s:%s>%s/%d/%v/%s@%d-%d;", o.T, o.Kind, o.Key, o.In, o.Out, o.Ver, o.Found, o.Err, o.Call, o.Ret)
	}
	return sb.String()
}

// RacePass runs the scenario bodies free (real goroutines, locks, files, clock)
// n times each; meant for a worker built with -race. Verdicts of the oracles are ignored:
// only the race detector's reports matter here.
func RacePass(scs []*Scenario, n int) (runs int) {
	for _, sc := range scs {
		for i := 0; i < n; i++ {
			vsched.RunFree(func(s *vsched.Sched) { sc.Run(sc, s) })
			runs++
		}
	}
	os.RemoveAll(fmt.Sprintf("/dev/shm/verif-race-%d", os.Getpid()))
	return
}
