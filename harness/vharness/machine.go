//go:build verif

// Package vharness holds the explorers, reference models and oracles. It is
// copied into the scratch copy of gobeansdb and linked into vworker.
package vharness

import (
	"bytes"
	"fmt"
	"io"
	"os"
	"strconv"
	"strings"
	"time"

	"github.com/douban/gobeansdb/gobeansdb"
	mc "github.com/douban/gobeansdb/memcache"
	"github.com/douban/gobeansdb/store"
	"github.com/douban/gobeansdb/vshim/vos"
	"github.com/douban/gobeansdb/vshim/vsched"
	"github.com/douban/gobeansdb/vshim/vtime"
)

// memConn is an in-memory client connection.
type memConn struct {
	in     bytes.Buffer
	out    bytes.Buffer
	closed bool
}

func (c *memConn) Read(p []byte) (int, error) {
	if c.in.Len() == 0 {
		return 0, io.EOF
	}
	return c.in.Read(p)
}
func (c *memConn) Write(p []byte) (int, error) { return c.out.Write(p) }
func (c *memConn) Close() error                { c.closed = true; return nil }

// Machine is one real store instance on a memfs, driven through the
// memcached text protocol, plus process-level operations.
type Machine struct {
	Cfg       *store.VerifCfg
	FS        *vos.FS
	St        *store.HStore
	SC        mc.StorageClient
	Conn      *mc.ServerConn
	rw        *memConn
	Stats     *mc.Stats
	S         *vsched.Sched
	Refused   string // non-empty if the last open refused to start
	AutoDrain bool   // drain background work right after every reopen
}

// NewMachine prepares globals and opens a store on fs (a fresh memfs if nil).
func NewMachine(s *vsched.Sched, cfg *store.VerifCfg, fs *vos.FS) *Machine {
	m := &Machine{Cfg: cfg, S: s}
	if s.Free() {
		// free-running -race pass: real goroutines, real files, real time
		c2 := *cfg
		c2.Home = fmt.Sprintf("/dev/shm/verif-race-%d/db", os.Getpid())
		os.RemoveAll(c2.Home)
		m.Cfg = &c2
		vos.Detach()
		vtime.Disable()
		m.Open()
		return m
	}
	fresh := fs == nil
	if fs == nil {
		fs = vos.New()
	}
	m.FS = fs
	confCounter++
	if fresh && ConformanceBudget > 0 && confCounter%ConformanceStride == 1 {
		ConformanceBudget--
		fs.Tracing = true
		tracedFS = fs
	}
	vos.Attach(fs)
	vtime.Enable()
	m.Open()
	return m
}

// Open starts a "new process" on the current memfs.
func (m *Machine) Open() error {
	store.VerifInstallHub()
	store.VerifApplyCfg(m.Cfg)
	mc.VerifResetTokens()
	st, err := store.NewHStore()
	if err != nil {
		m.St = nil
		return err
	}
	m.St = st
	m.SC = gobeansdb.VerifClient(st)
	m.rw = &memConn{}
	m.Conn = mc.VerifNewConn(m.rw)
	m.Stats = mc.NewStats()
	return nil
}

// Exit models process exit: all goroutines of the old process vanish and C
// memory is returned. The memfs stays.
func (m *Machine) Exit() {
	m.S.KillOthers()
	if m.St != nil {
		m.St.VerifRelease()
		m.St = nil
	}
}

// Tick advances the virtual clock by one second.
func Tick() { vtime.Advance(time.Second) }

// Cmd sends raw bytes on the connection, serves until the input is consumed,
// and returns everything the server wrote.
func (m *Machine) Cmd(raw string) string {
	m.rw.in.WriteString(raw)
	m.rw.out.Reset()
	for !m.Conn.VerifClosing() && (m.rw.in.Len() > 0 || m.Conn.VerifBuffered() > 0) {
		if err := m.Conn.ServeOnce(m.SC, m.Stats); err != nil {
			break
		}
	}
	return m.rw.out.String()
}

func fmtSet(key string, flag uint32, rev int, body []byte) string {
	return fmt.Sprintf("set %s %d %d %d\r\n%s\r\n", key, flag, rev, len(body), body)
}

// ParsedGet is the parse of a get reply.
type ParsedGet struct {
	Items map[string]GetItem
	OK    bool // syntactically valid VALUE* END
	Raw   string
}
type GetItem struct {
	Flag int
	Body string
}

func ParseGetReply(raw string) ParsedGet {
	pg := ParsedGet{Items: map[string]GetItem{}, Raw: raw}
	rest := raw
	for {
		i := strings.Index(rest, "\r\n")
		if i < 0 {
			return pg
		}
		line := rest[:i]
		rest = rest[i+2:]
		if line == "END" {
			pg.OK = rest == ""
			return pg
		}
		parts := strings.Split(line, " ")
		if len(parts) < 4 || parts[0] != "VALUE" {
			return pg
		}
		flag, e1 := strconv.Atoi(parts[2])
		n, e2 := strconv.Atoi(parts[3])
		if e1 != nil || e2 != nil || n < 0 || len(rest) < n+2 || rest[n:n+2] != "\r\n" {
			return pg
		}
		if _, dup := pg.Items[parts[1]]; dup {
			return pg
		}
		pg.Items[parts[1]] = GetItem{Flag: flag, Body: rest[:n]}
		rest = rest[n+2:]
	}
}

// ---- memfs conformance: recorded call traces replayed against the real OS ----

// ConformanceBudget is the number of executions of this worker whose complete
// file-system call trace is still to be replayed against the real OS.
var ConformanceBudget = 0

// ConformanceStride spreads the traced executions over the run (every n-th fresh machine).
var ConformanceStride = 97
var confCounter = 0
var tracedFS *vos.FS
var conformanceStats struct{ traces, calls int64 }

// ConformanceCheck replays the trace of the last traced execution (if any) on
// the real OS; a divergence is a machinery failure, never a verdict.
func ConformanceCheck() {
	fs := tracedFS
	tracedFS = nil
	if fs == nil || len(fs.Trace) == 0 {
		return
	}
	fs.Tracing = false
	root := fmt.Sprintf("/dev/shm/verif-conf-%d/t%d", os.Getpid(), conformanceStats.traces)
	n, err := vos.ReplayOnOS(fs.Trace, fs, root)
	os.RemoveAll(fmt.Sprintf("/dev/shm/verif-conf-%d", os.Getpid()))
	if err != nil {
		fmt.Fprintf(os.Stderr, "MACHINERY: memfs diverges from the real OS: %v\n", err)
		os.Exit(2)
	}
	conformanceStats.traces++
	conformanceStats.calls += int64(n)
}
