//go:build verif

package vharness

import (
	"fmt"
	"strings"

	"github.com/douban/gobeansdb/store"
	"github.com/douban/gobeansdb/vshim/vsched"
)

// gcLayout prepares: file 0 = [a1][a2], file 1 = [b1][c1], file 2 = [c2] (head), everything flushed.
// A pass over [0,1] relocates a2 (256 -> 0), moves b1 into file 0 and drops a1 and c1.
func gcLayout(m *Machine, rec *Recorder) {
	rec.Set(0, "a", val(0, 0, "a", 0))
	rec.Set(0, "a", val(0, 1, "a", 0))
	rec.Set(0, "b", val(0, 2, "b", 0))
	rec.Set(0, "c", val(0, 3, "c", 0))
	rec.Set(0, "c", val(0, 4, "c", 0))
	m.S.Drain()
	m.St.VerifFlush(true)
	m.S.Drain()
	Tick()
	Tick()
}

// killAfter: the process is killed (after the data was flushed) instead of being shut down cleanly
var c05KillAfter = map[string]bool{}

func c05Run(writer func(rec *Recorder), reader func(rec *Recorder), viaHStore bool, cancel bool, dropHash bool) func(sc *Scenario, s *vsched.Sched) (*Mismatch, string) {
	return func(sc *Scenario, s *vsched.Sched) (*Mismatch, string) {
		m := NewMachine(s, sc.Cfg, nil)
		defer m.Exit()
		rec := &Recorder{st: m.St}
		gcLayout(m, rec)
		if c05KillAfter[sc.Name] {
			// an earlier clean restart left a tree dump on disk
			if err := m.CleanRestart(nil); err != nil {
				return &Mismatch{Op: "setup", Where: "restart", Want: "opens", Got: err.Error(), Class: "open-error"}, ""
			}
			s.Drain()
			rec.st = m.St
			Tick()
			Tick()
		}
		nSetup := len(rec.Ops)
		var gcErr error
		threads := []func(){
			func() {
				if viaHStore {
					_, _, gcErr = m.St.GC(0, 0, 1, 0, false, false)
				} else {
					m.St.VerifGCDirect(0, 0, 1, false)
				}
			},
			func() { writer(rec) },
			func() { reader(rec) },
		}
		if cancel {
			threads = append(threads, func() { m.St.CancelGC(0) })
		}
		s.Parallel(threads...)
		obs := obsString(rec.Ops[nSetup:])
		if gcErr != nil {
			return &Mismatch{Op: "gc", Where: "request", Want: "accepted", Got: gcErr.Error(), Class: "gc-refused"}, obs
		}
		if g := m.St.VerifLastGC(0); g != nil && g.Err != nil {
			return &Mismatch{Op: "gc", Where: "pass", Want: "no error", Got: g.Err.Error(), Class: "gc-error"}, obs
		}
		if mm := CheckHistory(rec.Ops, true); mm != nil {
			return mm, obs
		}
		if mm := CheckFinal(m.St, rec.Ops, "final"); mm != nil {
			return mm, obs
		}
		if c05KillAfter[sc.Name] {
			m.St.VerifFlush(true) // every acknowledged write is on disk; then the process dies without Close
		} else {
			m.St.Close()
		}
		m.Exit()
		if dropHash {
			for _, p := range m.IndexFiles() {
				if len(p) > 9 && p[len(p)-9:] == ".idx.hash" {
					m.FS.RemoveRaw(p)
				}
			}
		}
		if err := m.Open(); err != nil {
			return &Mismatch{Op: "reopen", Where: "open", Want: "opens", Got: err.Error(), Class: "open-error"}, obs
		}
		s.Drain()
		if mm := CheckFinal(m.St, rec.Ops, "reopen"); mm != nil {
			return mm, obs
		}
		return nil, obs
	}
}

func c05Scenarios(tier string) []*Scenario {
	var out []*Scenario
	add := func(name string, run func(sc *Scenario, s *vsched.Sched) (*Mismatch, string)) {
		c := cfgSched(name)
		out = append(out, &Scenario{Property: "C05", Name: name, Cfg: c, Run: run, Heavy: strings.HasPrefix(name, "G5") || strings.HasPrefix(name, "G6")})
	}
	wSetA := func(rec *Recorder) { rec.Set(1, "a", val(1, 0, "a", 0)) }
	wDelA := func(rec *Recorder) { rec.Del(1, "a") }
	wSetB := func(rec *Recorder) { rec.Set(1, "b", val(1, 0, "b", 0)) }
	rAB := func(rec *Recorder) { rec.Get(2, "a"); rec.Get(2, "b") }
	rA := func(rec *Recorder) { rec.Get(2, "a") }
	add("G1-gc-vs-set-a", c05Run(wSetA, rAB, false, false, false))
	add("G2-gc-vs-del-a", c05Run(wDelA, rA, false, false, true))
	add("G3-gc-vs-set-b-moved", c05Run(wSetB, rAB, false, false, true))
	add("G4-hstore-gc-vs-set-a", c05Run(wSetA, rA, true, false, false))
	// G7: as G1, but after the pass the process is killed (data flushed) instead of closed: the restart must not trust
	// index files written before the pass
	c05KillAfter["G7-gc-vs-set-a-then-kill"] = true
	add("G7-gc-vs-set-a-then-kill", c05Run(wSetA, rA, false, false, false))
	{
		add("G5-gc-cancel-vs-set-a", c05Run(wSetA, rA, true, true, true))
		add("G6-gc-vs-2sets", c05Run(func(rec *Recorder) { rec.Set(1, "a", val(1, 0, "a", 0)); rec.Set(1, "b", val(1, 1, "b", 0)) }, rAB, false, false, false))
	}
	// G8: a key "d" with the same 64-bit hash as "a" is written for the FIRST time while the pass runs (a's current record
	// lies in the collected range): the pass must still keep a's record (it finds the new key in the hint buffers), and both
	// keys must read their own value afterwards, also after a restart. Values only: versions of colliding keys are not compared.
	{
		c := cfgSched("G8-gc-vs-first-set-of-colliding-key")
		h := map[string]uint64{}
		for k, v := range hashAB {
			h[k] = v
		}
		h["d"] = hashAB["a"]
		c.Hash = h
		out = append(out, &Scenario{Property: "C05", Name: c.Name, Cfg: c, Run: func(sc *Scenario, s *vsched.Sched) (*Mismatch, string) {
			m := NewMachine(s, sc.Cfg, nil)
			defer m.Exit()
			rec := &Recorder{st: m.St}
			gcLayout(m, rec)
			wantA, wantD := val(0, 1, "a", 0), val(1, 0, "d", 0)
			var setErr error
			s.Parallel(
				func() { m.St.VerifGCDirect(0, 0, 1, false) },
				func() { _, setErr = hsSet(m.St, "d", []byte(wantD), 0, 0) },
			)
			obs := fmt.Sprint("set d: ", setErr)
			if g := m.St.VerifLastGC(0); g != nil && g.Err != nil {
				return &Mismatch{Op: "gc", Where: "pass", Want: "no error", Got: g.Err.Error(), Class: "gc-error"}, obs
			}
			if setErr != nil {
				return &Mismatch{Op: "set d", Where: "reply", Want: "stored", Got: setErr.Error(), Class: "set-error"}, obs
			}
			check := func(where string) *Mismatch {
				for _, kv := range [][2]string{{"a", wantA}, {"d", wantD}} {
					body, _, _, present, err := hsGet(m.St, kv[0])
					got := body
					if err != nil {
						got = "error: " + err.Error()
					} else if !present {
						got = "miss"
					}
					if got != kv[1] {
						return &Mismatch{Op: where + ":" + kv[0], Where: where, Key: kv[0], Want: kv[1], Got: got, Class: where + "-collide-" + map[bool]string{true: "lost", false: "wrong"}[got == "miss"]}
					}
				}
				return nil
			}
			if mm := check("final"); mm != nil {
				return mm, obs
			}
			m.St.Close()
			m.Exit()
			if err := m.Open(); err != nil {
				return &Mismatch{Op: "reopen", Where: "open", Want: "opens", Got: err.Error(), Class: "open-error"}, obs
			}
			s.Drain()
			if mm := check("reopen"); mm != nil {
				return mm, obs
			}
			return nil, obs
		}})
	}
	_ = store.MAX_NUM_CHUNK
	return out
}

func C05(job *Job, r *Report) {
	r.Level = "model_checking"
	r.Rule = "stateless model checking under the controlled scheduler: a store prepared with file0=[a1][a2], file1=[b1][c1], head=[c2] (so a pass over [0,1] relocates a's and b's current records and drops two superseded ones); threads: one GC pass (gcMgr.gc directly or through HStore.GC, optionally a canceller), one writer (set a / delete a / set b), one reader (get a, get b); EVERY interleaving at lock acquisitions, file-system calls, spawns (these bracket GC's newest-check, copy, tree repoint, hint write, source clear) with at most N preemptions (quick 2, thorough 3; the two heavier scenarios - with a canceller thread, with two client writes - one less); oracle: C04's conditions with the documented relaxation (a read overlapping the pass may return an error or a miss, never a wrong or stale value), after the pass every key reads its last acknowledged write, again after Close + exit + reopen with and without the tree dump, and (G7) after a kill that follows the pass; (G8) a key with the same 64-bit hash as a relocated key is written for the first time during the pass: both keys must read their own value afterwards and after a restart"
	r.Assumptions = []string{"sequentially consistent interleavings at synchronisation/file-system granularity", "cgo calls atomic"}
	bound := 2
	if job.Tier != "quick" {
		bound = 3
	}
	runScenarios(job, r, c05Scenarios(job.Tier), []int{bound}, -1)
	r.Bounds["preemption_bound_completed"] = bound
}
