//go:build verif

package vharness

import (
	"fmt"

	"github.com/douban/gobeansdb/store"
	"github.com/douban/gobeansdb/vshim/vos"
	"github.com/douban/gobeansdb/vshim/vsched"
)

func C14(job *Job, r *Report) {
	r.Level = "model_checking"
	r.Rule = "bounded-exhaustive small-scope enumeration, in-package on memfs: every choice of at most N (quick 4, thorough 5) (item,file) pairs from a universe of 8 items (hashes 0, 1, 2^63, 2^64-2, 2^64-1; same-hash groups of 2 at the minimum and maximum hash and a 255-byte key colliding with a short one; one tombstone) x 3 source files (file 0 always exists, possibly EMPTY), x index interval {entry per item, 400, 4096}: (a) writer -> reader round trip (items, order, datasize, count), (b) hintFileIndex.get of every present item and of 9 absent keys below / between / equal-hash-different-key / above: item iff present, never an error, (c) merge: per key the entry with the greatest (file, offset), output sorted, every same-hash group reported to the collision table and no singleton reported; plus deterministic families of n in {0,1,4095,4096,4097,5000} items with an index entry per item (row boundary of the index buffer) and HintBuffer.Dump order; states = distinct assignments"
	r.Assumptions = []string{"memfs models POSIX file semantics", "key lengths 1, 3 and 255 only"}
	maxItems := 4
	if job.Tier != "quick" {
		maxItems = 5
	}
	var res, large *store.VerifHintResult
	sr := vsched.Run(vsched.Opts{}, func(s *vsched.Sched) {
		store.VerifInstallHub()
		store.VerifApplyCfg(cfgK1())
		fs := vos.New()
		fs.NoPoint = true
		vos.Attach(fs)
		vos.MkdirAll("/h", 0755)
		res = store.VerifHintCheck(maxItems, job.Shard, job.NShards)
		if job.Shard == 0 {
			large = store.VerifHintLarge([]int{0, 1, 4095, 4096, 4097, 5000})
		}
	})
	if sr.Aborted != "" {
		r.Violate(Violation{Property: "C14", Sig: "C14|process|" + sr.Aborted, Class: "process-" + sr.Aborted, Summary: sr.Aborted + ": " + sr.Msg + "\n" + sr.Stacks,
			Replay: mustJSON(map[string]string{"kind": "hint", "msg": sr.Msg, "stacks": sr.Stacks})})
	}
	for _, x := range []*store.VerifHintResult{res, large} {
		if x == nil {
			continue
		}
		r.Count("evaluations", x.Cases)
		r.Count("transitions", x.Cases)
		r.Count("nontrivial_inputs", x.Distinct)
		for _, s := range x.Samples {
			r.Sample(s)
		}
		for _, b := range x.Bad {
			cls := "hint"
			for _, c := range []string{"merge: panic", "merge", "lookup present", "lookup absent", "round trip", "collision group", "merged"} {
				if len(b) >= len(c) && b[:len(c)] == c {
					cls = c
					break
				}
			}
			r.Violate(Violation{Property: "C14", Sig: "C14|" + cls + "|" + b, Class: cls, Summary: b, Replay: mustJSON(map[string]string{"kind": "hint", "case": b})})
		}
	}
	for i := int64(0); res != nil && i < res.Distinct; i++ {
		r.Distinct("states", fmt.Sprint("assignment", job.Shard, i))
	}
}
