//go:build verif

package vharness

import (
	"bytes"
	"encoding/binary"
	"encoding/json"
	"fmt"
	"os"
	"os/exec"
	"strconv"
	"strings"
	"syscall"
	"time"

	"github.com/douban/gobeansdb/quicklz"
	"github.com/douban/gobeansdb/store"
	"github.com/douban/gobeansdb/vshim/vsched"
)

var shapeNames = []string{"constant", "period7", "text", "random", "wave", "mpeg", "text-head-random-tail", "random-head-text-tail"}

func shapeBytes(shape string, n int, salt int) []byte {
	b := make([]byte, n)
	text := "It is a truth universally acknowledged, that a single man in possession of a good fortune, must be in want of a wife. "
	lcg := uint32(salt*7919 + n)
	rnd := func() byte { lcg = lcg*1664525 + 1013904223; return byte(lcg >> 24) }
	for i := range b {
		switch shape {
		case "constant":
			b[i] = 'A'
		case "period7":
			b[i] = "abcdefg"[i%7]
		case "text", "wave", "mpeg":
			b[i] = text[i%len(text)]
		case "random":
			b[i] = rnd()
		case "text-head-random-tail":
			if i < n/2 {
				b[i] = text[i%len(text)]
			} else {
				b[i] = rnd()
			}
		case "random-head-text-tail":
			if i < n/2 {
				b[i] = rnd()
			} else {
				b[i] = text[i%len(text)]
			}
		}
	}
	switch shape {
	case "wave":
		copy(b, "RIFF\x24\x08\x00\x00WAVEfmt ")
	case "mpeg":
		copy(b, "ID3\x03\x00\x00\x00\x00\x00\x0a")
	}
	return b
}

func cfgCompress() *store.VerifCfg {
	return &store.VerifCfg{Name: "compress", NumBucket: 1, TreeHeight: 3, DataFileMax: 3 << 20, SplitCap: 1024, BufIOCap: 1 << 16,
		BodyMax: 2 << 20, BodyInC: 4096, MaxReq: 3}
}

// c10Value runs one value through every location and checks it.
func c10Value(s *vsched.Sched, shape string, size int, flag uint32) *Mismatch {
	m := NewMachine(s, cfgCompress(), nil)
	m.AutoDrain = true
	defer m.Exit()
	key := "k"
	v := shapeBytes(shape, size, int(flag))
	desc := fmt.Sprintf("%s/%d/flag%x", shape, size, flag)
	khash := fmt.Sprintf("%016x", refKeyHash([]byte(key)))
	wantVh := int(refVhash(v))
	check := func(where string) *Mismatch {
		got := m.Cmd("get " + key + "\r\n")
		want := fmt.Sprintf("VALUE %s %d %d\r\n%s\r\nEND\r\n", key, flag, len(v), v)
		if got != want {
			cls := "compress-wrong-bytes"
			if pg := ParseGetReply(got); pg.OK && pg.Items[key].Body == string(v) {
				cls = "compress-wrong-flag"
			}
			return &Mismatch{Op: desc, Where: where + " get", Key: key, Want: clip(want), Got: clip(got), Class: cls}
		}
		pg := ParseGetReply(m.Cmd("get ?" + key + "\r\n"))
		f := strings.Split(pg.Items["?"+key].Body, " ")
		if !pg.OK || len(f) != 5 {
			return &Mismatch{Op: desc, Where: where + " ?key", Want: "5 fields", Got: pg.Raw, Class: "compress-meta"}
		}
		vh, _ := strconv.Atoi(f[1])
		fl, _ := strconv.Atoi(f[2])
		ln, _ := strconv.Atoi(f[3])
		if vh != wantVh || fl != int(flag) || ln != len(v) {
			return &Mismatch{Op: desc, Where: where + " ?key", Want: fmt.Sprintf("vhash %d flag %d len %d (of the uncompressed value)", wantVh, flag, len(v)), Got: pg.Items["?"+key].Body, Class: "compress-meta"}
		}
		l := parseListing(m.Cmd("get @" + khash[:2] + "\r\n"))
		found := false
		for _, ln := range l.lines {
			if strings.HasPrefix(ln, khash+" ") {
				found = true
				if g := strings.Split(ln, " "); g[1] != strconv.Itoa(wantVh) {
					return &Mismatch{Op: desc, Where: where + " listing", Want: fmt.Sprintf("vhash %d", wantVh), Got: ln, Class: "compress-listing-vhash"}
				}
			}
		}
		if !found {
			return &Mismatch{Op: desc, Where: where + " listing", Want: "item line for the key", Got: clip(l.raw), Class: "compress-listing-vhash"}
		}
		return nil
	}
	Tick()
	if got := m.Cmd(fmtSet(key, flag, 0, []byte("old"))); got != "STORED\r\n" {
		return &Mismatch{Op: desc, Where: "set old", Want: "STORED", Got: got, Class: "compress-set"}
	}
	Tick()
	if got := m.Cmd(fmtSet(key, flag, 0, v)); got != "STORED\r\n" {
		return &Mismatch{Op: desc, Where: "set", Want: "STORED", Got: got, Class: "compress-set"}
	}
	if mm := check("buffer"); mm != nil {
		return mm
	}
	m.St.VerifFlush(true)
	if mm := check("file"); mm != nil {
		return mm
	}
	// the stored record: flag bit 0x10000 iff compressed; compressed bodies decompress (Go implementation) to the value
	for id, data := range m.dataFiles(0) {
		recs, tail := ScanFile(data)
		if tail != "" {
			return &Mismatch{Op: desc, Where: fmt.Sprintf("%03d.data", id), Want: "clean file", Got: tail, Class: "compress-file"}
		}
		for _, rc := range recs {
			if rc.Key != key || rc.Ver != 2 {
				continue
			}
			if rc.Flag&store.FLAG_COMPRESS != 0 {
				c10Stats["stored_compressed"]++
				dec, err := quicklz.DecompressSafe(rc.Body)
				if err != nil || !bytes.Equal(dec, v) {
					return &Mismatch{Op: desc, Where: "stored record", Want: "Go decompressor returns the value", Got: fmt.Sprint(err), Class: "compress-cross"}
				}
				if flag&store.FLAG_CLIENT_COMPRESS != 0 {
					return &Mismatch{Op: desc, Where: "stored record", Want: "client-compressed values are stored as they are", Got: "server compressed it", Class: "compress-client-flag"}
				}
			} else {
				c10Stats["stored_plain"]++
				if !bytes.Equal(rc.Body, v) {
					return &Mismatch{Op: desc, Where: "stored record", Want: "plain body = value", Got: "differs", Class: "compress-file"}
				}
			}
			if rc.Flag&^store.FLAG_COMPRESS != flag {
				return &Mismatch{Op: desc, Where: "stored record", Want: fmt.Sprintf("client flag %x", flag), Got: fmt.Sprintf("%x", rc.Flag), Class: "compress-file"}
			}
		}
	}
	if err := m.CleanRestart(nil); err != nil {
		return &Mismatch{Op: desc, Where: "restart", Want: "opens", Got: err.Error(), Class: "compress-restart"}
	}
	if mm := check("after restart with hints"); mm != nil {
		return mm
	}
	if err := m.CleanRestart(func(string, int) bool { return true }); err != nil {
		return &Mismatch{Op: desc, Where: "restart", Want: "opens", Got: err.Error(), Class: "compress-restart"}
	}
	if mm := check("after hint rebuild from data"); mm != nil {
		return mm
	}
	if size <= 1<<17 {
		// two more files so that a pass over [0,0] is accepted; it drops "old" and relocates the value
		filler := shapeBytes("random", 2<<20, 99)
		for i := 0; i < 2; i++ {
			Tick()
			m.Cmd(fmtSet(fmt.Sprintf("filler%d", i), 0, 0, filler))
		}
		md := NewModel(false)
		curHistLen = -1
		if mm := gcStep(m, md, Op{K: "gc", A: []int{0, 0, 0}}, 0, false); mm != nil {
			return mm
		}
		if g := m.St.VerifLastGC(0); g == nil || g.NumReleased == 0 {
			return &Mismatch{Op: desc, Where: "gc", Want: "a pass that releases the old record", Got: fmt.Sprintf("%+v", g), Class: "compress-gc-vacuous"}
		}
		c10Stats["gc_relocations"]++
		if mm := check("after GC"); mm != nil {
			return mm
		}
	}
	return nil
}

var c10Stats = map[string]int64{}

// ---- hostile inputs for the safe decompressors, run in a sacrificial subprocess ----

func hostileInputs(visit func(i int, in []byte) bool) {
	i := 0
	emit := func(in []byte) bool {
		if len(in) >= 9 && in[0]&2 == 2 && binary.LittleEndian.Uint32(in[5:]) > 1<<20 {
			return true // declares more than 1 MB of output: only costs memory, not enumerated
		}
		ok := visit(i, in)
		i++
		return ok
	}
	// all strings of length <= 2
	if !emit([]byte{}) {
		return
	}
	for a := 0; a < 256; a++ {
		if !emit([]byte{byte(a)}) {
			return
		}
	}
	for a := 0; a < 256; a++ {
		for b := 0; b < 256; b++ {
			if !emit([]byte{byte(a), byte(b)}) {
				return
			}
		}
	}
	// size-consistent headers + short payloads
	alpha := []byte{0x00, 0x01, 0x03, 0x7f, 0x80, 0xfe, 0xff}
	var payloads [][]byte
	payloads = append(payloads, []byte{})
	for l := 1; l <= 3; l++ {
		n := 1
		for j := 0; j < l; j++ {
			n *= len(alpha)
		}
		for x := 0; x < n; x++ {
			p := make([]byte, l)
			y := x
			for j := 0; j < l; j++ {
				p[j] = alpha[y%len(alpha)]
				y /= len(alpha)
			}
			payloads = append(payloads, p)
		}
	}
	for fl := 0; fl < 256; fl++ {
		for _, ds := range []int{0, 1, 2, 3, 4, 8, 16, 63, 64} {
			for _, p := range payloads {
				var in []byte
				if fl&2 == 2 {
					in = make([]byte, 9+len(p))
					in[0] = byte(fl)
					binary.LittleEndian.PutUint32(in[1:], uint32(len(in)))
					binary.LittleEndian.PutUint32(in[5:], uint32(ds))
					copy(in[9:], p)
				} else {
					in = make([]byte, 3+len(p))
					in[0] = byte(fl)
					in[1] = byte(len(in))
					in[2] = byte(ds)
					copy(in[3:], p)
				}
				if !emit(in) {
					return
				}
			}
		}
	}
	// every single-byte substitution of four valid compressed streams
	for si, sh := range []string{"text", "period7", "text-head-random-tail", "constant"} {
		v := shapeBytes(sh, 300+si*37, si)
		comp := quicklz.Compress(v, 3)
		for pos := 0; pos < len(comp); pos++ {
			for val := 0; val < 256; val++ {
				if byte(val) == comp[pos] {
					continue
				}
				d := append([]byte(nil), comp...)
				d[pos] = byte(val)
				if !emit(d) {
					return
				}
			}
		}
	}
}

// HostileChild runs in the sacrificial subprocess: feeds inputs [lo,hi) to both safe entry points and
// records the index it is working on in a shared file (so that the parent knows which input killed it).
func HostileChild(lo, hi int, progress string) int {
	f, err := os.OpenFile(progress, os.O_RDWR|os.O_CREATE, 0644)
	if err != nil {
		return 2
	}
	f.Truncate(16)
	mem, err := syscall.Mmap(int(f.Fd()), 0, 16, syscall.PROT_READ|syscall.PROT_WRITE, syscall.MAP_SHARED)
	if err != nil {
		return 2
	}
	var wrong int64
	hostileInputs(func(i int, in []byte) bool {
		if i < lo {
			return true
		}
		if i >= hi {
			return false
		}
		binary.LittleEndian.PutUint64(mem[0:], uint64(i)+1)
		arr, err := quicklz.CDecompressSafe(in)
		if err == nil {
			// accepted: then the Go implementation must agree on the content
			g, gerr := quicklz.DecompressSafe(in)
			if gerr == nil && !bytes.Equal(g, arr.Body) {
				wrong++
			}
		}
		arr.Free()
		quicklz.DecompressSafe(in)
		return true
	})
	binary.LittleEndian.PutUint64(mem[0:], 0)
	binary.LittleEndian.PutUint64(mem[8:], uint64(wrong))
	return 0
}

func countHostile() int {
	n := 0
	hostileInputs(func(i int, in []byte) bool { n++; return true })
	return n
}

func hostileInput(idx int) []byte {
	var out []byte
	hostileInputs(func(i int, in []byte) bool {
		if i == idx {
			out = append([]byte(nil), in...)
			return false
		}
		return true
	})
	return out
}

func C10(job *Job, r *Report) {
	r.Level = "exploration"
	r.Rule = "bounded-exhaustive input grid: 8 content shapes (constant, period-7, text, LCG random, RIFF..WAVE and ID3 sniffed as audio, compressible head + random tail, random head + compressible tail) x sizes {231..234 and 255..258 (record = 256 boundary), 7167, 10239..10241 (probe size), 14628, 65536, 1 MB+1} x client flags {0, 0x10, 0x204}; each value is set over an older version and read back (get, ?key, @ listing) from the write buffer, from the flushed file, after a restart with hints, after a restart that rebuilds hints from data and after a GC pass that relocates it; the stored record (independent decoder) carries the 0x10000 bit iff its body is compressed, compressed bodies decompress with the Go implementation to the value, client-compressed values are stored verbatim; C compress -> Go decompress and Go compress (level 3) -> C safe decompress for every shape and size up to 64 KB, and for 56 'marker + copy' buffers whose only match lies at distance 2^14-3..2^14+3 or 2^17-3..2^17+3 with length 3..6 (the encoder's match-token limits). Safe decompressors on hostile bytes in a sacrificial subprocess per batch: all strings of length <= 2, every size-consistent 3- or 9-byte header (all 256 flag bytes x declared size in {0,1,2,3,4,8,16,63,64}) x all payloads of length <= 3 over {00,01,03,7f,80,fe,ff}, every single-byte substitution of four valid streams; a signal/abort/timeout of the subprocess is a violation"
	r.Assumptions = []string{"whether the server compresses a given value is not pinned", "declared decompressed sizes above 64 bytes in forged headers are not enumerated (memory)", "the Go and C implementations are compared at compression level 3 (the level the C library is built with)"}
	sizes := []int{231, 232, 233, 234, 255, 256, 257, 258, 7167, 10239, 10240, 10241, 14628, 65536, 1<<20 + 1}
	flags := []uint32{0, 0x10, 0x204}
	unit := 0
	if job.Part == "" || job.Part == "values" {
		for _, sh := range shapeNames {
			for _, sz := range sizes {
				if job.Tier == "quick" && sz > 1<<20 && sh != "text" && sh != "random" {
					continue
				}
				for _, fl := range flags {
					mine := unit%job.NShards == job.Shard
					unit++
					if !mine || r.Expired() {
						continue
					}
					var mm *Mismatch
					res := vsched.Run(vsched.Opts{}, func(s *vsched.Sched) { mm = c10Value(s, sh, sz, fl) })
					if res.Aborted != "" {
						mm = &Mismatch{Op: fmt.Sprintf("%s/%d/%x", sh, sz, fl), Where: "process", Want: "runs", Got: res.Aborted + ": " + res.Msg, Class: "process-" + res.Aborted}
					}
					r.Count("evaluations", 1)
					r.Count("nontrivial_inputs", 1)
					r.Sample(map[string]interface{}{"shape": sh, "size": sz, "flag": fl})
					if mm != nil {
						r.Violate(Violation{Property: "C10", Sig: fmt.Sprintf("C10|%s|%s/%d/%x", mm.Class, sh, sz, fl), Class: mm.Class, Summary: mm.String(),
							Replay: mustJSON(map[string]interface{}{"kind": "compress", "shape": sh, "size": sz, "flag": fl, "mismatch": mm})})
					}
				}
				// cross-implementation round trips
				if sz <= 65536 {
					mine := unit%job.NShards == job.Shard
					unit++
					if mine {
						v := shapeBytes(sh, sz, 5)
						r.Count("evaluations", 1)
						if c, ok := quicklz.CCompress(v); ok {
							g, err := quicklz.DecompressSafe(c.Body)
							if err != nil || !bytes.Equal(g, v) {
								r.Violate(Violation{Property: "C10", Sig: fmt.Sprintf("C10|cross-c-to-go|%s/%d", sh, sz), Class: "cross-c-to-go", Summary: fmt.Sprintf("C compress -> Go decompress differs for %s/%d: %v", sh, sz, err), Replay: mustJSON(map[string]interface{}{"kind": "cross", "shape": sh, "size": sz})})
							}
							c.Free()
						}
						gc := quicklz.Compress(v, 3)
						arr, err := quicklz.CDecompressSafe(gc)
						if err != nil || !bytes.Equal(arr.Body, v) {
							r.Violate(Violation{Property: "C10", Sig: fmt.Sprintf("C10|cross-go-to-c|%s/%d", sh, sz), Class: "cross-go-to-c", Summary: fmt.Sprintf("Go compress -> C safe decompress differs for %s/%d: %v", sh, sz, err), Replay: mustJSON(map[string]interface{}{"kind": "cross", "shape": sh, "size": sz})})
						}
						arr.Free()
						g1 := quicklz.Compress(v, 1)
						if d, err := quicklz.DecompressSafe(g1); err != nil || !bytes.Equal(d, v) {
							r.Violate(Violation{Property: "C10", Sig: fmt.Sprintf("C10|go-level1-roundtrip|%s/%d", sh, sz), Class: "go-level1-roundtrip", Summary: fmt.Sprintf("Go level-1 round trip differs for %s/%d: %v", sh, sz, err), Replay: mustJSON(map[string]interface{}{"kind": "cross", "shape": sh, "size": sz})})
						}
					}
				}
			}
		}
	}
	// match-distance boundaries of the encoder: a buffer of zeros with a short marker and a copy of its first L bytes at
	// distance d, for every d around 2^14 (limit of the short match token) and 2^17 and L = 3..6; C compress -> C safe
	// decompress and Go decompress, Go compress -> C safe decompress
	if job.Part == "" || job.Part == "values" {
		for _, base := range []int{1 << 14, 1 << 17} {
			for d := base - 3; d <= base+3; d++ {
				for L := 3; L <= 6; L++ {
					mine := unit%job.NShards == job.Shard
					unit++
					if !mine {
						continue
					}
					v := make([]byte, d+4000)
					copy(v[1000:], "abcdefg")
					copy(v[1000+d:], "abcdefg"[:L])
					v[1000+d+L] = 'Z'
					r.Count("evaluations", 1)
					r.Count("nontrivial_inputs", 1)
					r.Count("match_distance_inputs", 1)
					name := fmt.Sprintf("marker-copy/dist%d/len%d", d, L)
					if c, ok := quicklz.CCompress(v); ok {
						g, err := quicklz.DecompressSafe(c.Body)
						if err != nil || !bytes.Equal(g, v) {
							r.Violate(Violation{Property: "C10", Sig: "C10|cross-c-to-go|" + name, Class: "cross-c-to-go", Summary: fmt.Sprintf("C compress -> Go decompress differs for %s: %v", name, err), Replay: mustJSON(map[string]interface{}{"kind": "cross", "shape": name})})
						}
						arr, err := quicklz.CDecompressSafe(c.Body)
						if err != nil || !bytes.Equal(arr.Body, v) {
							r.Violate(Violation{Property: "C10", Sig: "C10|roundtrip-c|" + name, Class: "roundtrip-c", Summary: fmt.Sprintf("C compress -> C safe decompress differs for %s: %v", name, err), Replay: mustJSON(map[string]interface{}{"kind": "cross", "shape": name})})
						}
						if err == nil {
							arr.Free()
						}
						c.Free()
					}
					gc := quicklz.Compress(v, 3)
					arr, err := quicklz.CDecompressSafe(gc)
					if err != nil || !bytes.Equal(arr.Body, v) {
						r.Violate(Violation{Property: "C10", Sig: "C10|cross-go-to-c|" + name, Class: "cross-go-to-c", Summary: fmt.Sprintf("Go compress -> C safe decompress differs for %s: %v", name, err), Replay: mustJSON(map[string]interface{}{"kind": "cross", "shape": name})})
					}
					if err == nil {
						arr.Free()
					}
				}
			}
		}
	}
	for k, v := range c10Stats {
		r.Count(k, v)
	}
	// hostile inputs: this shard's slice of the enumeration, in sacrificial subprocesses
	if job.Part == "" || job.Part == "hostile" {
		total := countHostile()
		per := (total + job.NShards - 1) / job.NShards
		lo, hi := job.Shard*per, (job.Shard+1)*per
		if hi > total {
			hi = total
		}
		r.Bounds["hostile_inputs_total"] = total
		for lo < hi && !r.Expired() {
			prog := fmt.Sprintf("%s.hostile-progress", job.Out)
			os.Remove(prog)
			cj, _ := json.Marshal(Job{Check: "C10-hostile-child", Shard: lo, NShards: hi, Out: prog})
			runChild := func(cj []byte, limit time.Duration) (err error, timedOut bool, cur, wrong uint64) {
				cmd := exec.Command(os.Args[0], string(cj))
				cmd.Env = os.Environ()
				done := make(chan error, 1)
				cmd.Start()
				go func() { done <- cmd.Wait() }()
				select {
				case err = <-done:
				case <-time.After(limit):
					cmd.Process.Kill()
					err = <-done
					timedOut = true
				}
				b, _ := os.ReadFile(prog)
				if len(b) >= 16 {
					cur = binary.LittleEndian.Uint64(b[0:])
					wrong = binary.LittleEndian.Uint64(b[8:])
				}
				os.Remove(prog)
				return
			}
			err, timedOut, cur, wrong := runChild(cj, 200*time.Second)
			if timedOut && int(cur)-1 >= lo {
				// slow batch or a genuine hang? run the input it was working on alone
				one, _ := json.Marshal(Job{Check: "C10-hostile-child", Shard: int(cur) - 1, NShards: int(cur), Out: prog})
				_, t2, _, _ := runChild(one, 30*time.Second)
				if !t2 {
					r.Cap("hostile batch exceeded its time limit without a hanging input; rest of the slice skipped")
					r.Count("evaluations", int64(int(cur)-1-lo))
					r.Count("hostile_inputs", int64(int(cur)-1-lo))
					break
				}
			}
			if err == nil && cur == 0 {
				r.Count("evaluations", int64(hi-lo))
				r.Count("hostile_inputs", int64(hi-lo))
				// not a property violation: forged input that both implementations accept may decode differently
				r.Count("hostile_accepted_by_both_with_different_output", int64(wrong))
				break
			}
			// the child died while working on input cur-1
			idx := int(cur) - 1
			if idx < lo {
				r.Cap(fmt.Sprintf("hostile child failed to start or report progress: %v", err))
				break
			}
			in := hostileInput(idx)
			r.Count("evaluations", int64(idx-lo+1))
			r.Count("hostile_inputs", int64(idx-lo+1))
			r.Count("hostile_crashes", 1)
			why := fmt.Sprint(err)
			if timedOut {
				why = "timeout"
			}
			cls := "hostile-crash"
			r.Violate(Violation{Property: "C10", Sig: fmt.Sprintf("C10|%s|%x", cls, in[:min(len(in), 24)]), Class: cls,
				Summary: fmt.Sprintf("safe decompressor killed the process (%s) on input #%d = %x", why, idx, in[:min(len(in), 32)]),
				Replay:  mustJSON(map[string]interface{}{"kind": "hostile", "index": idx, "input_hex": fmt.Sprintf("%x", in), "exit": why})})
			lo = idx + 1
			if r.Counters["hostile_crashes"] > 40 {
				r.Cap("more than 40 crashing hostile inputs in this shard; rest of the slice skipped")
				break
			}
		}
	}
}
