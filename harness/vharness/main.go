//go:build verif

package vharness

import (
	"encoding/json"
	"fmt"
	"os"
	"runtime/pprof"
	"strings"
)

var checks = map[string]func(job *Job, r *Report){
	"C01": C01,
	"C02": C02,
	"C03": C03,
	"C18": C18,
	"C13": C13,
	"C08": C08,
	"C06": C06,
	"C07": C07,
	"C04": C04,
	"C05": C05,
	"C17": C17,
	"C11": C11,
	"C16": C16,
	"C14": C14,
	"C09": C09,
	"C15": C15,
	"C10": C10,
	"C12": C12,
}

// Main is the entry point of vworker.
func Main() {
	if len(os.Args) < 2 {
		fmt.Fprintln(os.Stderr, "usage: vworker '<job json>'")
		os.Exit(2)
	}
	var job Job
	if err := json.Unmarshal([]byte(os.Args[1]), &job); err != nil {
		fmt.Fprintln(os.Stderr, "bad job:", err)
		os.Exit(2)
	}
	if job.NShards == 0 {
		job.NShards = 1
	}
	if job.Check == "C10-hostile-child" {
		os.Exit(HostileChild(job.Shard, job.NShards, job.Out))
	}
	if job.Check == "debug-path" {
		var ch []int
		json.Unmarshal([]byte(job.Out), &ch)
		debugSchedulePath(job.Part, ch)
		os.Exit(0)
	}
	if job.Check == "C10-hostile-input" {
		fmt.Printf("%x\n", hostileInput(job.Shard))
		os.Exit(0)
	}
	if job.Part == "race" {
		var scs []*Scenario
		switch job.Check {
		case "C04":
			scs = c04Scenarios()
		case "C05":
			scs = c05Scenarios("thorough")
		case "C02":
			scs = c02bScenarios()
		case "C17":
			scs = c17bScenarios()
		case "C12":
			scs = c12bScenarios()
		}
		n := RacePass(scs, 30)
		fmt.Printf("race pass: %d free runs of %d scenarios\n", n, len(scs))
		os.Exit(0)
	}
	if job.Replay != "" {
		os.Exit(Replay(&job))
	}
	f, ok := checks[job.Check]
	if !ok {
		fmt.Fprintln(os.Stderr, "unknown check", job.Check)
		os.Exit(2)
	}
	if pf := os.Getenv("VERIF_CPUPROFILE"); pf != "" {
		fh, _ := os.Create(pf)
		pprof.StartCPUProfile(fh)
		defer pprof.StopCPUProfile()
	}
	r := NewReport(&job)
	ConformanceBudget = 15
	if job.Tier != "quick" {
		ConformanceBudget = 320
	}
	f(&job, r)
	if conformanceStats.traces > 0 {
		r.Count("memfs_traces_replayed_on_os", conformanceStats.traces)
		r.Count("memfs_calls_replayed_on_os", conformanceStats.calls)
	}
	r.Write()
}

// Replay re-executes one recorded violation twice and prints both observations.
func Replay(job *Job) int {
	b, err := os.ReadFile(job.Replay)
	if err != nil {
		fmt.Fprintln(os.Stderr, err)
		return 2
	}
	var head struct {
		Kind  string `json:"kind"`
		Check string `json:"check"`
	}
	if err := json.Unmarshal(b, &head); err != nil {
		fmt.Fprintln(os.Stderr, err)
		return 2
	}
	switch head.Kind {
	case "xstate":
		var rp xReplay
		if err := json.Unmarshal(b, &rp); err != nil {
			fmt.Fprintln(os.Stderr, err)
			return 2
		}
		for _, tier := range []string{"quick", "thorough"} {
			for _, x := range xspecsFor(rp.Check, tier) {
				if x.Name != rp.Config {
					continue
				}
				var outs []string
				for i := 0; i < 2; i++ {
					o := x.RunHistory(rp.History, false)
					d := "no mismatch"
					if o.MM != nil {
						d = o.MM.String()
					}
					outs = append(outs, d)
					fmt.Printf("run %d: [%s] %s -> %s\n", i+1, x.Name, HistString(rp.History), d)
				}
				if outs[0] != outs[1] {
					fmt.Println("REPLAY DIVERGED between the two runs")
					return 2
				}
				if outs[0] == "no mismatch" {
					return 0
				}
				return 1
			}
		}
		fmt.Fprintln(os.Stderr, "no such configuration:", rp.Check, rp.Config)
		return 2
	case "sched":
		var rp schedReplay
		if err := json.Unmarshal(b, &rp); err != nil {
			fmt.Fprintln(os.Stderr, err)
			return 2
		}
		var all []*Scenario
		all = append(all, c04Scenarios()...)
		all = append(all, c05Scenarios("thorough")...)
		all = append(all, c02bScenarios()...)
		all = append(all, c17bScenarios()...)
		all = append(all, c12bScenarios()...)
		for _, sc := range all {
			if sc.Name != rp.Scenario {
				continue
			}
			var outs []string
			for i := 0; i < 2; i++ {
				o := sc.exec(rp.Choices, nil, rp.YieldRel)
				d := "no mismatch"
				if o.mm != nil {
					d = o.mm.String()
				}
				outs = append(outs, d+" | "+o.obs)
				fmt.Printf("run %d: [%s] choices %v -> %s\n", i+1, sc.Name, rp.Choices, d)
				for _, t := range traceOf(o.res) {
					if i == 0 {
						fmt.Println("   ", t)
					}
				}
			}
			if outs[0] != outs[1] {
				fmt.Println("REPLAY DIVERGED between the two runs")
				return 2
			}
			if strings.HasPrefix(outs[0], "no mismatch") {
				return 0
			}
			return 1
		}
		fmt.Fprintln(os.Stderr, "no such scenario:", rp.Scenario)
		return 2
	case "proto":
		var rp protoReplay
		if err := json.Unmarshal(b, &rp); err != nil {
			fmt.Fprintln(os.Stderr, err)
			return 2
		}
		al := map[string]Letter{}
		for _, l := range protoAlphabet() {
			al[l.Name] = l
		}
		var outs []string
		for i := 0; i < 2; i++ {
			o := protoRunOnce(al, rp.Run)
			d := "no mismatch"
			if mm := pick(o, rp.Check); mm != nil {
				d = mm.String()
			}
			outs = append(outs, d)
			fmt.Printf("run %d: script %v split %d cut %d -> %s\n    server output: %q\n", i+1, rp.Run.Script, rp.Run.Split, rp.Run.Cut, d, o.obs)
		}
		if outs[0] != outs[1] {
			fmt.Println("REPLAY DIVERGED between the two runs")
			return 2
		}
		if outs[0] == "no mismatch" {
			return 0
		}
		return 1
	}
	fmt.Fprintln(os.Stderr, "replay kind not supported by the stand-alone replayer (re-run the check; the replay file holds the complete witness):", head.Kind)
	return 2
}

// xspecsFor returns the explicit-state specs of a check.
func xspecsFor(check, tier string) []*XSpec {
	switch check {
	case "C01":
		return c01Specs(tier)
	case "C02":
		return c02Specs(tier)
	case "C03":
		return gcSpecs("C03", tier, false)
	case "C18":
		return gcSpecs("C18", tier, true)
	case "C13":
		return c13Specs(tier)
	case "C08":
		return c08Specs(tier)
	case "C06":
		return c06Specs(tier)
	case "C07":
		return c07Specs(tier)
	}
	return nil
}

// debugSchedulePath prints, for a scenario, the choice points along a given path (development aid).
func debugSchedulePath(name string, choices []int) {
	var all []*Scenario
	all = append(all, c02bScenarios()...)
	for _, sc := range all {
		if sc.Name != name {
			continue
		}
		for cut := 1; cut <= len(choices); cut++ {
			if cut != 1 && choices[cut-1] == 0 {
				continue
			}
			o := sc.exec(choices[:cut], nil, false)
			fmt.Printf("prefix len %d: points=%d aborted=%q mm=%v\n", cut, len(o.res.Points), o.res.Aborted, o.mm != nil)
			pre := 0
			for i, p := range o.res.Points {
				if i >= cut-2 && i <= cut+8 {
					fmt.Printf("   point %d: tid %d kind %s N=%d curEnabled=%v chosen=%d pre=%d\n", i, p.Tid, p.Kind, p.N, p.CurEnabled, p.Chosen, pre)
				}
				if p.Chosen != 0 && p.CurEnabled {
					pre++
				}
			}
		}
	}
}
