//go:build verif

package vharness

import (
	"encoding/json"
	"fmt"
	"os"
)

var checks = map[string]func(job *Job, r *Report){
	"C01": C01,
}

// Main is the entry point of vworker.
func Main() {
	if len(os.Args) < 2 {
		fmt.Fprintln(os.Stderr, "usage: vworker '<job json>'")
		os.Exit(2)
	}
	var job Job
	if err := json.Unmarshal([]byte(os.Args[1]), &job); err != nil {
		fmt.Fprintln(os.Stderr, "bad job:", err)
		os.Exit(2)
	}
	if job.NShards == 0 {
		job.NShards = 1
	}
	if job.Replay != "" {
		os.Exit(Replay(&job))
	}
	f, ok := checks[job.Check]
	if !ok {
		fmt.Fprintln(os.Stderr, "unknown check", job.Check)
		os.Exit(2)
	}
	r := NewReport(&job)
	f(&job, r)
	r.Write()
}

// Replay re-executes one recorded violation twice and prints both observations.
func Replay(job *Job) int {
	b, err := os.ReadFile(job.Replay)
	if err != nil {
		fmt.Fprintln(os.Stderr, err)
		return 2
	}
	var head struct {
		Kind  string `json:"kind"`
		Check string `json:"check"`
	}
	if err := json.Unmarshal(b, &head); err != nil {
		fmt.Fprintln(os.Stderr, err)
		return 2
	}
	fmt.Fprintln(os.Stderr, "replay kind not supported yet:", head.Kind)
	return 2
}
