//go:build verif

package vharness

import (
	"fmt"
	"sort"
	"strconv"
	"strings"

	"github.com/douban/gobeansdb/store"
	"github.com/douban/gobeansdb/vshim/vsched"
)

// keys: a,b share a leaf; c is in a sibling leaf; d in another bucket (16/256-bucket configs)
var hashMerkle = map[string]uint64{
	"a": 0xab12345678abcdef,
	"b": 0xab1fedcba9876543,
	"c": 0xab70000000000003,
	"d": 0x3c00000000000001,
}

func init() {
	for i := 0; i < 300; i++ {
		// filler keys live in a's leaf: (height 3, depth 0: leaf = first two digits "ab")
		hashMerkle[fmt.Sprintf("f%03d", i)] = 0xab20000000000000 + uint64(i)*0x0000010000000101
	}
}

func cfgMerkle(name string, nb int, served []int, height int, fillers int, thr uint32) *store.VerifCfg {
	dfm := int64(512)
	if fillers > 5 {
		dfm = 1 << 20 // one data file: the filler population is not the subject of GC here
	}
	return &store.VerifCfg{Name: fmt.Sprintf("%s-fill%d-thr%d", name, fillers, thr), NumBucket: nb, Served: served, TreeHeight: height, DataFileMax: dfm,
		SplitCap: 1024, BufIOCap: 4096, BodyMax: 64 << 10, BodyInC: 4096, MaxReq: 3, Hash: hashMerkle, ThresholdListKey: thr}
}

type listing struct {
	kind  string   // "items", "nodes", "none", "error"
	lines []string // nodes: 16 lines exact; items: sorted live lines
	tomb  []string // negative-version item lines
	raw   string
}

func parseListing(raw string) listing {
	pg := ParseGetReply(raw)
	if !pg.OK {
		return listing{kind: "error", raw: raw}
	}
	if len(pg.Items) == 0 {
		return listing{kind: "none", raw: raw}
	}
	var body string
	for _, it := range pg.Items {
		body = it.Body
	}
	l := listing{raw: raw}
	lines := strings.Split(strings.TrimSuffix(body, "\n"), "\n")
	if body == "" {
		l.kind = "items"
		return l
	}
	if strings.Contains(lines[0], "/ ") {
		l.kind = "nodes"
		l.lines = lines
		return l
	}
	l.kind = "items"
	for _, ln := range lines {
		f := strings.Split(ln, " ")
		if len(f) != 3 {
			return listing{kind: "error", raw: raw}
		}
		ver, err := strconv.Atoi(f[2])
		if err != nil {
			return listing{kind: "error", raw: raw}
		}
		if ver > 0 {
			l.lines = append(l.lines, ln)
		} else {
			l.tomb = append(l.tomb, ln)
		}
	}
	sort.Strings(l.lines)
	sort.Strings(l.tomb)
	return l
}

func merklePrefixes(cfg *store.VerifCfg) []string {
	seen := map[string]bool{}
	var out []string
	add := func(p string) {
		if !seen[p] {
			seen[p] = true
			out = append(out, p)
		}
	}
	add("")
	for _, k := range []string{"a", "b", "c", "d"} {
		h := fmt.Sprintf("%016x", cfg.Hash[k])
		for n := 1; n <= 16; n++ {
			add(h[:n])
		}
	}
	add("7")
	add("70")
	add("ab3")
	add("ab12345678abcde0")
	return out
}

// listAll returns the listing of every prefix.
func listAll(m *Machine, prefixes []string) map[string]listing {
	out := map[string]listing{}
	for _, p := range prefixes {
		out[p] = parseListing(m.Cmd("get @" + p + "\r\n"))
	}
	return out
}

type contentItem struct {
	key   string
	hash  uint64
	ver   int
	vhash int
	body  []byte
	flag  uint32
}

var canonCache = map[string]map[string]listing{}

func c08Exec(fillers int) func(x *XSpec, s *vsched.Sched, hist []Op, wantDump bool) (*Mismatch, string) {
	return func(x *XSpec, s *vsched.Sched, hist []Op, wantDump bool) (*Mismatch, string) {
		m := NewMachine(s, x.Cfg, nil)
		m.AutoDrain = true
		defer m.Exit()
		md := NewModel(false)
		keys := append([]string{}, x.Keys...)
		for i := 0; i < fillers; i++ {
			k := fmt.Sprintf("f%03d", i)
			keys = append(keys, k)
			if mm := StepMutator(m, md, Op{K: "set", Key: k, V: "s"}, -1); mm != nil {
				return mm, ""
			}
		}
		curHistLen = len(hist)
		for i, o := range hist {
			var mm *Mismatch
			if o.K == "gc" {
				mm = gcStep(m, md, o, i, false)
			} else {
				mm = Step(m, md, o, i)
			}
			if mm != nil {
				return mm, ""
			}
		}
		nextOps = acceptedGCs(m, bucketOf(x.Cfg, "a"))
		mm, dump := merkleCheck(s, m, md, x.Cfg, x.Name, keys, len(hist))
		if mm != nil || !wantDump {
			return mm, ""
		}
		return nil, dump
	}
}

// merkleCheck compares the listing of every prefix with (1) an independent recomputation from the content the store
// reports and (2) a canonical store holding the same content.
func merkleCheck(s *vsched.Sched, m *Machine, md *Model, cfg *store.VerifCfg, name string, keys []string, step int) (*Mismatch, string) {
	x := &XSpec{Cfg: cfg, Name: name}
	wantDump := true
	{
		// content as the store itself reports it
		var content []contentItem
		var csb strings.Builder
		for _, k := range keys {
			v := md.M[k]
			pg := ParseGetReply(m.Cmd("get ?" + k + "\r\n"))
			it, found := pg.Items["?"+k]
			if !pg.OK {
				return &Mismatch{Step: step, Op: "meta", Where: "meta", Key: k, Want: "valid", Got: pg.Raw, Class: "meta-error"}, ""
			}
			if !v.Live() {
				if found && !strings.HasPrefix(it.Body, "-") {
					return &Mismatch{Step: step, Op: "meta", Where: "meta", Key: k, Want: "miss or tombstone", Got: pg.Raw, Class: "meta-resurrected"}, ""
				}
				continue
			}
			if !found {
				return &Mismatch{Step: step, Op: "meta", Where: "meta", Key: k, Want: "hit", Got: pg.Raw, Class: "meta-miss"}, ""
			}
			f := strings.Split(it.Body, " ")
			ver, _ := strconv.Atoi(f[0])
			vh, _ := strconv.Atoi(f[1])
			if ver <= 0 || vh != int(store.Getvhash(v.Body)) {
				return &Mismatch{Step: step, Op: "meta", Where: "meta", Key: k, Want: "live with vhash of value", Got: pg.Raw, Class: "meta-fields"}, ""
			}
			content = append(content, contentItem{key: k, hash: x.Cfg.Hash[k], ver: ver, vhash: vh, body: v.Body, flag: v.Flag})
			fmt.Fprintf(&csb, "%s:%d:%d;", k, ver, vh)
		}
		prefixes := merklePrefixes(x.Cfg)
		got := listAll(m, prefixes)
		// (1) independent recomputation of counts and item sets from the content
		thr := int(x.Cfg.ThresholdListKey)
		depth := 0
		for n := x.Cfg.NumBucket; n > 1; n /= 16 {
			depth++
		}
		served := map[int]bool{}
		for _, b := range x.Cfg.Served {
			served[b] = true
		}
		bucketServed := func(h uint64) bool {
			if x.Cfg.Served == nil {
				return true
			}
			return served[int(h>>uint(64-4*depth))] || depth == 0
		}
		under := func(p string, h uint64) bool {
			return strings.HasPrefix(fmt.Sprintf("%016x", h), p)
		}
		for _, p := range prefixes {
			l := got[p]
			if l.kind == "error" {
				return &Mismatch{Step: step, Op: "list", Where: "@" + p, Want: "valid listing", Got: l.raw, Class: "list-error"}, ""
			}
			var live []contentItem
			for _, c := range content {
				if under(p, c.hash) && bucketServed(c.hash) {
					live = append(live, c)
				}
			}
			if len(p) >= depth {
				// inside one bucket
				if len(p) > 0 && depth > 0 {
					b, _ := strconv.ParseInt(p[:depth], 16, 0)
					if !served[int(b)] && x.Cfg.Served != nil {
						if l.kind != "none" && !(l.kind == "items" && len(l.lines) == 0 && len(l.tomb) == 0) {
							return &Mismatch{Step: step, Op: "list", Where: "@" + p, Want: "nothing for an unserved bucket", Got: l.raw, Class: "list-unserved"}, ""
						}
						continue
					}
				}
				leafLevel := len(p) >= depth+x.Cfg.TreeHeight-1
				wantItems := leafLevel || len(live) < thr
				if wantItems {
					if l.kind != "items" {
						return &Mismatch{Step: step, Op: "list", Where: "@" + p, Want: fmt.Sprintf("item listing (%d live)", len(live)), Got: l.raw, Class: "list-kind"}, ""
					}
					var want []string
					for _, c := range live {
						want = append(want, fmt.Sprintf("%016x %d %d", c.hash, c.vhash, c.ver))
					}
					sort.Strings(want)
					if strings.Join(want, "\n") != strings.Join(l.lines, "\n") {
						return &Mismatch{Step: step, Op: "list", Where: "@" + p, Want: strings.Join(want, "|"), Got: strings.Join(l.lines, "|"), Class: "list-items"}, ""
					}
					for _, t := range l.tomb {
						// a negative entry must belong to a deleted model key under the prefix
						ok := false
						for _, k := range keys {
							v := md.M[k]
							if v != nil && v.Ver < 0 && strings.HasPrefix(t, fmt.Sprintf("%016x ", x.Cfg.Hash[k])) && under(p, x.Cfg.Hash[k]) {
								ok = true
							}
						}
						if !ok {
							return &Mismatch{Step: step, Op: "list", Where: "@" + p, Want: "tombstones only for deleted keys", Got: t, Class: "list-tomb"}, ""
						}
					}
					continue
				}
			}
			if l.kind != "nodes" || len(l.lines) != 16 {
				return &Mismatch{Step: step, Op: "list", Where: "@" + p, Want: "16 child nodes", Got: l.raw, Class: "list-kind"}, ""
			}
			for i, ln := range l.lines {
				f := strings.Split(ln, " ")
				cnt := -1
				if len(f) == 3 {
					cnt, _ = strconv.Atoi(f[2])
				}
				want := 0
				cp := p + fmt.Sprintf("%x", i)
				for _, c := range live {
					if under(cp, c.hash) {
						want++
					}
				}
				if len(f) != 3 || f[0] != fmt.Sprintf("%x/", i) || cnt != want {
					return &Mismatch{Step: step, Op: "list", Where: "@" + p, Want: fmt.Sprintf("child %x count %d", i, want), Got: ln, Class: "list-count"}, ""
				}
			}
		}
		// (2) history independence: compare with a canonical store holding the same content
		ck := x.Name + "|" + csb.String()
		canon, ok := canonCache[ck]
		if !ok {
			m.Exit()
			m2 := NewMachine(s, x.Cfg, nil)
			md2 := NewModel(false)
			sort.Slice(content, func(i, j int) bool { return content[i].key < content[j].key })
			for _, c := range content {
				Tick()
				got := m2.Cmd(fmtSet(c.key, c.flag, c.ver, c.body))
				if got != "STORED\r\n" {
					return &Mismatch{Step: step, Op: "canonical", Where: "set", Key: c.key, Want: "STORED", Got: got, Class: "canon-error"}, ""
				}
				md2.Set(c.key, c.body, c.flag, c.ver, 0)
			}
			canon = listAll(m2, prefixes)
			m2.Exit()
			if len(canonCache) < 200000 {
				canonCache[ck] = canon
			}
			c08Stats.canon++
		} else {
			c08Stats.canonHits++
		}
		for _, p := range prefixes {
			a, b := got[p], canon[p]
			if a.kind != b.kind || strings.Join(a.lines, "\n") != strings.Join(b.lines, "\n") {
				return &Mismatch{Step: step, Op: "list", Where: "@" + p, Want: "canonical: " + strings.Join(b.lines, "|"), Got: strings.Join(a.lines, "|"), Class: "list-history-dependent"}, ""
			}
		}
		if wantDump {
			return nil, csb.String() + "|" + fmt.Sprint(step)
		}
		return nil, ""
	}
}

func bucketOf(cfg *store.VerifCfg, key string) int {
	depth := 0
	for n := cfg.NumBucket; n > 1; n /= 16 {
		depth++
	}
	if depth == 0 {
		return 0
	}
	return int(cfg.Hash[key] >> uint(64-4*depth))
}

var c08Stats struct{ canon, canonHits int64 }

func c08Specs(tier string) []*XSpec {
	mk := func(c *store.VerifCfg, keys []string, fillers, d int) *XSpec {
		al := perKey(keys, Op{K: "set", V: "s"}, Op{K: "del"})
		al = append(al, perKey(keys[:1], Op{K: "set", V: "s", Rev: 2}, Op{K: "setsame"})...)
		al = append(al, Op{K: "restart", A: []int{0}}, Op{K: "restart", A: []int{1}}, Op{K: "restart", A: []int{4}})
		return &XSpec{Property: "C08", Name: c.Name, Cfg: c, Alphabet: al, Depth: d, Keys: keys, Exec: c08Exec(fillers),
			Prune: func(hist []Op, op Op) bool {
				ngc := 0
				for _, o := range hist {
					if o.K == "gc" {
						ngc++
					}
				}
				return op.K == "gc" && (ngc >= 1 || (len(op.A) > 2 && op.A[2] == 1))
			}}
	}
	if tier == "quick" {
		return []*XSpec{
			mk(cfgMerkle("b1-h3", 1, nil, 3, 0, 4), []string{"a", "b", "c"}, 0, 5),
			mk(cfgMerkle("b1-h3", 1, nil, 3, 3, 4), []string{"a", "b", "c"}, 3, 4),
			mk(cfgMerkle("b16-h2", 16, []int{0xa, 0x3}, 2, 0, 4), []string{"a", "b", "d"}, 0, 4),
			mk(cfgMerkle("b1-h3", 1, nil, 3, 99, 256), []string{"a", "b"}, 99, 3),
			mk(cfgMerkle("b1-h3", 1, nil, 3, 100, 256), []string{"a", "b"}, 100, 3),
		}
	}
	var out []*XSpec
	for _, f := range []int{0, 2, 3, 4, 5} {
		out = append(out, mk(cfgMerkle("b1-h3", 1, nil, 3, f, 4), []string{"a", "b", "c"}, f, 4))
	}
	out = append(out,
		mk(cfgMerkle("b1-h2", 1, nil, 2, 0, 4), []string{"a", "b", "c"}, 0, 4),
		mk(cfgMerkle("b16-h2", 16, []int{0xa, 0x3}, 2, 0, 4), []string{"a", "b", "d"}, 0, 4),
		mk(cfgMerkle("b16-h3", 16, []int{0xa, 0x3}, 3, 3, 4), []string{"a", "b", "c", "d"}, 3, 3),
		mk(cfgMerkle("b256-h3", 256, []int{0xab, 0x3c}, 3, 0, 4), []string{"a", "b", "d"}, 0, 3),
		mk(cfgMerkle("b1-h3", 1, nil, 3, 99, 256), []string{"a", "b"}, 99, 3),
		mk(cfgMerkle("b1-h3", 1, nil, 3, 100, 256), []string{"a", "b"}, 100, 3),
		mk(cfgMerkle("b1-h3", 1, nil, 3, 101, 256), []string{"a", "b"}, 101, 3),
		mk(cfgMerkle("b1-h3", 1, nil, 3, 255, 256), []string{"a", "b"}, 255, 3),
		mk(cfgMerkle("b1-h3", 1, nil, 3, 257, 256), []string{"a", "b"}, 257, 2),
	)
	return out
}

func C08(job *Job, r *Report) {
	r.Level = "model_checking"
	r.Rule = "every history up to the stated depth over {set, set with explicit revision, same-value set, delete, restart with / without the tree dump, exit without Close (data flushed, hints dumped, old tree dump + newer hints replayed at the next start), every accepted GC range (merge off)} on keys a,b (one leaf), c (sibling leaf), d (other bucket), on top of filler populations straddling the list-keys threshold (4 here, 256 default) and the C-search threshold (100); in every reached state the listing of every prefix of length 0..16 along the key paths and of absent paths is (1) recomputed independently from the content the store reports through ?key: listing kind, counts = live keys under the prefix, item sets = exactly the live keys with 64-bit hash, version, value hash, tombstone lines only for deleted keys; (2) compared (node lines exactly, item lines as a set) with a canonical store built by inserting the same content once in sorted order; plus the in-package leaf harness for all eight depth+height classes (coverage.leaf_roundtrip)"
	r.Assumptions = []string{"node-hash formulas are not pinned, only history independence and counts", "memfs models POSIX file semantics"}
	for _, x := range c08Specs(job.Tier) {
		if job.Part != "" && job.Part != x.Name {
			continue
		}
		x.Explore(r, job)
	}
	if job.Part == "" || job.Part == "b" {
		pb := 2
		if job.Tier != "quick" {
			pb = 3
		}
		runScenarios(&Job{Check: job.Check, Tier: job.Tier, Shard: job.Shard, NShards: job.NShards, Seed: job.Seed}, r, c08SchedScenarios(), []int{pb}, -1)
		r.Extra["part_b"] = map[string]interface{}{"preemption_bound": pb, "rule": "a listing (root and one inner prefix, answered from cached node hashes) racing a write (new key / overwrite + delete) under the controlled scheduler, every interleaving up to the bound; at quiescence the listing of every prefix must again equal the recomputation from the content and the canonical store (a stale cached hash would persist)"}
	}
	r.Count("canonical_builds", c08Stats.canon)
	r.Count("canonical_cache_hits", c08Stats.canonHits)
	if job.Shard == 0 {
		n, bad := store.VerifLeafRoundTrip()
		r.Extra["leaf_roundtrip"] = map[string]interface{}{"cases": n, "failures": len(bad)}
		r.Count("evaluations", int64(n))
		for _, b := range bad {
			r.Violate(Violation{Property: "C08", Sig: "C08|leaf|" + b, Class: "leaf-roundtrip", Summary: b, Replay: mustJSON(map[string]string{"kind": "leaf", "case": b})})
		}
	}
}

// ---- part (b): a listing racing a write must not leave stale cached node hashes behind ----

func c08SchedScenarios() []*Scenario {
	var out []*Scenario
	mk := func(name string, writer func(rec *Recorder), lists []string) {
		cfg := cfgMerkle("b1-h3-conc", 1, nil, 3, 0, 4)
		cfg.Name = name
		out = append(out, &Scenario{Property: "C08", Name: name, Cfg: cfg, Run: func(sc *Scenario, s *vsched.Sched) (*Mismatch, string) {
			m := NewMachine(s, sc.Cfg, nil)
			m.AutoDrain = true
			defer m.Exit()
			rec := &Recorder{st: m.St}
			keys := []string{"a", "b", "c", "f000", "f001", "f002"}
			for i, k := range []string{"a", "b", "f000", "f001", "f002"} {
				rec.Set(0, k, val(0, i, k, 0)) // five live keys under the root: listed at node level (threshold 4)
			}
			s.Drain()
			// warm the cached node hashes
			for _, p := range lists {
				m.St.ListDir(&store.KeyInfo{StringKey: p, Key: []byte(p), KeyIsPath: true})
			}
			Tick()
			s.Parallel(
				func() { writer(rec) },
				func() {
					for _, p := range lists {
						m.St.ListDir(&store.KeyInfo{StringKey: p, Key: []byte(p), KeyIsPath: true})
					}
				},
			)
			obs := obsString(rec.Ops)
			// the model after quiescence: the write with the highest version of every key
			md := NewModel(false)
			for _, o := range rec.Ops {
				if o.Err != "" || (o.Kind == "del" && !o.Found) || o.Kind == "get" {
					continue
				}
				cur := md.M[o.Key]
				if cur == nil || abs32i(o.Ver) > abs32i(cur.Ver) {
					md.M[o.Key] = &MVal{Body: []byte(o.In), Ver: o.Ver}
				}
			}
			mm, _ := merkleCheck(s, m, md, sc.Cfg, sc.Name, keys, 0)
			return mm, obs
		}})
	}
	mk("L1-list-vs-new-key", func(rec *Recorder) { rec.Set(1, "c", val(1, 0, "c", 0)) }, []string{"", "a"})
	mk("L2-list-vs-overwrite-delete", func(rec *Recorder) { rec.Set(1, "a", val(1, 0, "a", 0)); rec.Del(1, "b") }, []string{"", "ab"})
	return out
}
