//go:build verif

package vharness

import (
	"bytes"
	"encoding/binary"
	"fmt"
	"hash/crc32"
	"strings"

	"github.com/douban/gobeansdb/store"
	"github.com/douban/gobeansdb/vshim/vos"
	"github.com/douban/gobeansdb/vshim/vsched"
)

// refEncode is the independent reference encoder of the documented beansdb record layout:
// crc32(4) ts(4) flag(4) ver(4) ksz(4) vsz(4) key value, zero-padded to a multiple of 256;
// the CRC (IEEE) covers everything after the crc field up to the end of the value.
func refEncode(r store.VerifRec) []byte {
	n := 24 + len(r.Key) + len(r.Body)
	padded := (n + 255) &^ 255
	b := make([]byte, padded)
	binary.LittleEndian.PutUint32(b[4:], r.TS)
	binary.LittleEndian.PutUint32(b[8:], r.Flag)
	binary.LittleEndian.PutUint32(b[12:], uint32(r.Ver))
	binary.LittleEndian.PutUint32(b[16:], uint32(len(r.Key)))
	binary.LittleEndian.PutUint32(b[20:], uint32(len(r.Body)))
	copy(b[24:], r.Key)
	copy(b[24+len(r.Key):], r.Body)
	binary.LittleEndian.PutUint32(b[0:], crc32.ChecksumIEEE(b[4:n]))
	return b
}

func recSame(a, b *store.VerifRec) bool {
	return a.Key == b.Key && bytes.Equal(a.Body, b.Body) && a.Flag == b.Flag && a.Ver == b.Ver && a.TS == b.TS
}

type c09State struct {
	r       *Report
	fs      *vos.FS
	n       int64
	shard   int
	nshards int
}

func (c *c09State) bad(class, what string, detail map[string]interface{}) {
	detail["kind"] = "record"
	detail["what"] = what
	c.r.Violate(Violation{Property: "C09", Sig: "C09|" + class + "|" + what, Class: class, Summary: what, Replay: mustJSON(detail)})
}

// checkFile verifies one (possibly damaged) file image against the original
// records. damaged is the byte range [lo,hi) that was altered (lo<0: intact).
func (c *c09State) checkFile(tag string, img []byte, orig []store.VerifRec, offs []int, lo, hi int) {
	c.n++
	c.r.Count("evaluations", 1)
	path := "/d/000.data"
	c.fs.WriteFileRaw(path, img)
	detail := func() map[string]interface{} {
		return map[string]interface{}{"case": tag, "file_hex_prefix": fmt.Sprintf("%x", img[:min(len(img), 96)]), "len": len(img), "damaged": []int{lo, hi}}
	}
	// positional reads at every original offset
	for i := range orig {
		end := offs[i] + len(refEncode(orig[i]))
		got, err := store.VerifReadAt(path, uint32(offs[i]))
		touched := lo >= 0 && lo < end && hi > offs[i]
		realEnd := offs[i] + 24 + len(orig[i].Key) + len(orig[i].Body)
		touchedPayload := lo >= 0 && lo < realEnd && hi > offs[i]
		if err == nil {
			if !recSame(got, &orig[i]) {
				c.bad("positional-wrong-data", fmt.Sprintf("%s: positional read at %d returned data that differs from what was written", tag, offs[i]), detail())
				return
			}
			_ = touched
		} else if !touchedPayload && end <= len(img) {
			c.bad("positional-error-on-intact", fmt.Sprintf("%s: positional read of intact record at %d failed: %v", tag, offs[i], err), detail())
			return
		}
	}
	// sequential scan
	recs, _, err := store.VerifScan(path)
	for _, g := range recs {
		ok := false
		for i := range orig {
			if int(g.Off) == offs[i] && recSame(&g, &orig[i]) {
				ok = true
			}
		}
		if !ok {
			c.bad("scan-wrong-data", fmt.Sprintf("%s: scan returned a record at %d that was never written there (key %q ver %d)", tag, g.Off, clip(g.Key), g.Ver), detail())
			return
		}
	}
	for i := range orig {
		end := offs[i] + len(refEncode(orig[i]))
		if end > len(img) {
			continue
		}
		after := lo < 0 || offs[i] >= ((hi+255)&^255)
		before := lo >= 0 && end <= lo
		if !after && !before {
			continue
		}
		found := false
		for _, g := range recs {
			if int(g.Off) == offs[i] {
				found = true
			}
		}
		if !found {
			cls := "scan-misses-intact-record-after-damage"
			if before {
				cls = "scan-misses-intact-record-before-damage"
			}
			if lo < 0 {
				cls = "scan-misses-record"
			}
			c.bad(cls, fmt.Sprintf("%s: scan did not return the intact record at %d (scan error: %v)", tag, offs[i], err), detail())
			return
		}
	}
}

func C09(job *Job, r *Report) {
	r.Level = "fault_enumeration"
	r.Rule = "records from {key length 1, 2, 250} x {value length 0, 1, 229..233, 485..489, 4096} x scalar fields (flag, version, timestamp) in {0, 1, 0x7fffffff, 0x80000000, 0xffffffff} (each value of each field at least once, all lengths in full product) are written with the repository's stream writer into files of 1..4 records; the bytes must equal an independent reference encoder (own layout code + Go hash/crc32) and every record occupies whole 256-byte blocks; positional and streaming reads return every record at its offset. Faults, exhaustively per file: every byte x {flip bit 0, flip bit 7, set 0x00, set 0xff}; every non-empty subset of zeroed 256-byte blocks (files <= 8 blocks); every truncation length; ksz/vsz fields of every record set to {0, 1, 251, rest-of-file-1, rest-of-file, rest-of-file+1, BodyMax, BodyMax+1, 0xffffffff}. Oracle: a positional read returns the original record or an error; a scan returns only original records at their original offsets and every intact record lying entirely before or entirely after the damaged blocks"
	r.Assumptions = []string{"single damaged region per file (plus block subsets); CRC-32 detects every burst of up to 32 bits", "a multi-block value that embeds the image of a record is not in the alphabet (phantom records)"}
	sr := vsched.Run(vsched.Opts{}, func(s *vsched.Sched) {
		store.VerifInstallHub()
		cfg := cfgK1()
		cfg.BodyMax = 8192
		cfg.BufIOCap = 4096
		store.VerifApplyCfg(cfg)
		fs := vos.New()
		fs.NoPoint = true
		vos.Attach(fs)
		vos.MkdirAll("/d", 0755)
		c := &c09State{r: r, fs: fs, shard: job.Shard, nshards: job.NShards}
		scal := []uint32{0, 1, 0x7fffffff, 0x80000000, 0xffffffff}
		klens := []int{1, 2, 250}
		vlens := []int{0, 1, 229, 230, 231, 232, 233, 485, 486, 487, 488, 489, 4096}
		var pool []store.VerifRec
		i := 0
		for _, kl := range klens {
			for _, vl := range vlens {
				key := strings.Repeat("k", kl-1) + string(rune('a'+i%26))
				body := make([]byte, vl)
				for j := range body {
					body[j] = byte(j*7 + i)
				}
				pool = append(pool, store.VerifRec{Key: key, Body: body, Flag: scal[i%5], Ver: int32(scal[(i/5)%5]), TS: scal[(i/25+i)%5]})
				i++
			}
		}
		// round trip of every single record and of files of 2..4 consecutive pool records
		var files [][]store.VerifRec
		for i := range pool {
			files = append(files, []store.VerifRec{pool[i]})
		}
		for i := 0; i+4 <= len(pool); i += 3 {
			files = append(files, pool[i:i+2], pool[i:i+3], pool[i:i+4])
		}
		// every record also as a non-last record followed by a one-block record (what comes after a record must be found
		// whatever the size of that record: exact multiple of a block, one byte over, ...)
		small := store.VerifRec{Key: "follower", Body: []byte("f"), Flag: 1, Ver: 2, TS: 3}
		for i := range pool {
			files = append(files, []store.VerifRec{pool[i], small, pool[(i+1)%len(pool)]})
		}
		unit := 0
		for fi, recs := range files {
			mine := unit%job.NShards == job.Shard
			unit++
			if !mine {
				continue
			}
			path := "/d/000.data"
			fs.RemoveRaw(path)
			if err := store.VerifWriteDataFile(path, recs); err != nil {
				c.bad("write-error", fmt.Sprintf("file %d: %v", fi, err), map[string]interface{}{})
				continue
			}
			img0, _ := fs.ReadFileRaw(path)
			img := append([]byte(nil), img0...)
			var want []byte
			var offs []int
			for _, rc := range recs {
				offs = append(offs, len(want))
				want = append(want, refEncode(rc)...)
			}
			if !bytes.Equal(img, want) {
				c.bad("encoding-differs", fmt.Sprintf("file %d (%d records): bytes written differ from the reference encoding (len %d vs %d)", fi, len(recs), len(img), len(want)), map[string]interface{}{"got_hex": fmt.Sprintf("%x", img[:min(len(img), 64)]), "want_hex": fmt.Sprintf("%x", want[:min(len(want), 64)])})
				continue
			}
			r.Count("nontrivial_inputs", 1)
			tag := fmt.Sprintf("file#%d(%d recs, %d bytes)", fi, len(recs), len(img))
			c.checkFile(tag+" intact", img, recs, offs, -1, -1)
			big := len(img) > 3000
			// single-byte faults
			step := 1
			if big {
				step = 13 // large values: every 13th byte of the body, every byte of the headers
			}
			for pos := 0; pos < len(img); pos++ {
				inHeader := false
				for _, o := range offs {
					if pos >= o && pos < o+24+8 {
						inHeader = true
					}
				}
				if !inHeader && pos%step != 0 {
					continue
				}
				for _, f := range []func(byte) byte{func(b byte) byte { return b ^ 1 }, func(b byte) byte { return b ^ 0x80 }, func(byte) byte { return 0 }, func(byte) byte { return 0xff }} {
					nb := f(img[pos])
					if nb == img[pos] {
						continue
					}
					d := append([]byte(nil), img...)
					d[pos] = nb
					c.checkFile(fmt.Sprintf("%s byte %d: %02x->%02x", tag, pos, img[pos], nb), d, recs, offs, pos, pos+1)
				}
			}
			// zeroed block subsets
			nb := len(img) / 256
			if nb <= 8 {
				for mask := 1; mask < 1<<uint(nb); mask++ {
					d := append([]byte(nil), img...)
					lo, hi := -1, -1
					for b := 0; b < nb; b++ {
						if mask>>uint(b)&1 == 1 {
							for j := 0; j < 256; j++ {
								d[b*256+j] = 0
							}
							if lo < 0 {
								lo = b * 256
							}
							hi = (b + 1) * 256
						}
					}
					// treat the hull of the zeroed blocks as the damaged region (conservative: records in between are not required)
					c.checkFile(fmt.Sprintf("%s zeroed blocks mask %b", tag, mask), d, recs, offs, lo, hi)
				}
			}
			// truncations
			tstep := 1
			if big {
				tstep = 37
			}
			for l := 0; l < len(img); l += tstep {
				c.checkFile(fmt.Sprintf("%s truncated to %d", tag, l), img[:l], recs, offs, l, len(img))
			}
			// size-field damage
			for ri, o := range offs {
				rest := len(img) - o - 24
				for _, field := range []int{16, 20} {
					for _, v := range []uint32{0, 1, 251, uint32(rest - 1), uint32(rest), uint32(rest + 1), 8192, 8193, 0xffffffff} {
						d := append([]byte(nil), img...)
						if binary.LittleEndian.Uint32(d[o+field:]) == v {
							continue
						}
						binary.LittleEndian.PutUint32(d[o+field:], v)
						c.checkFile(fmt.Sprintf("%s record %d size field@%d=%d", tag, ri, field, v), d, recs, offs, o+field, o+field+4)
					}
				}
			}
		}
	})
	if sr.Aborted != "" {
		r.Violate(Violation{Property: "C09", Sig: "C09|process|" + sr.Aborted, Class: "process-" + sr.Aborted, Summary: sr.Aborted + ": " + sr.Msg + "\n" + sr.Stacks,
			Replay: mustJSON(map[string]string{"kind": "record", "msg": sr.Msg, "stacks": sr.Stacks})})
	}
	r.Sample(map[string]interface{}{"record": "key kk..a (250 bytes), value 233 bytes, flag 0x80000000", "faults": "every byte x 4 alterations, block subsets, every truncation, 9 values per size field"})
}
