//go:build verif

package vharness

import (
	"encoding/binary"
	"encoding/json"
	"fmt"
	"hash/fnv"
	"os"
	"sort"
	"time"
)

// Job is what the driver asks a worker to do.
type Job struct {
	Check     string `json:"check"`
	Tier      string `json:"tier"`
	Shard     int    `json:"shard"`
	NShards   int    `json:"nshards"`
	Seed      int64  `json:"seed"`
	Out       string `json:"out"`
	Replay    string `json:"replay,omitempty"` // path of a replay file: run just that
	DeadlineS int    `json:"deadline_s"`
	Part      string `json:"part,omitempty"`
}

type Violation struct {
	Property string          `json:"property"`
	Sig      string          `json:"sig"`
	Class    string          `json:"class"`
	Summary  string          `json:"summary"`
	Replay   json.RawMessage `json:"replay"`
}

type Report struct {
	Check       string                 `json:"check"`
	Shard       int                    `json:"shard"`
	Counters    map[string]int64       `json:"counters"`
	Samples     []interface{}          `json:"samples"`
	Violations  []Violation            `json:"violations"`
	Caps        []string               `json:"caps"`
	Notes       []string               `json:"notes"`
	Bounds      map[string]interface{} `json:"bounds"`
	HashFiles   map[string]string      `json:"hash_files"` // set name -> binary file of uint64
	Incomplete  bool                   `json:"incomplete"`
	Rule        string                 `json:"rule"`
	Level       string                 `json:"level"`
	Assumptions []string               `json:"assumptions"`
	Extra       map[string]interface{} `json:"extra"`
	WallS       float64                `json:"wall_s"`

	sets     map[string]map[uint64]struct{}
	start    time.Time
	deadline time.Time
	job      *Job
	sigSeen  map[string]bool
}

func NewReport(job *Job) *Report {
	r := &Report{Check: job.Check, Shard: job.Shard, Counters: map[string]int64{}, Bounds: map[string]interface{}{},
		HashFiles: map[string]string{}, Extra: map[string]interface{}{}, sets: map[string]map[uint64]struct{}{}, start: time.Now(), job: job, sigSeen: map[string]bool{}}
	if job.DeadlineS > 0 {
		r.deadline = r.start.Add(time.Duration(job.DeadlineS) * time.Second)
	}
	return r
}

func (r *Report) Count(name string, n int64) { r.Counters[name] += n }

func Hash64(s string) uint64 {
	h := fnv.New64a()
	h.Write([]byte(s))
	return h.Sum64()
}

// Distinct adds s to the named set of distinct things.
func (r *Report) Distinct(set string, s string) bool {
	m := r.sets[set]
	if m == nil {
		m = map[uint64]struct{}{}
		r.sets[set] = m
	}
	h := Hash64(s)
	if _, ok := m[h]; ok {
		return false
	}
	if len(m) >= 4000000 {
		r.capOnce("distinct-set " + set + " capped at 4000000 entries per shard (count is a lower bound)")
		return false
	}
	m[h] = struct{}{}
	return true
}

func (r *Report) capOnce(s string) {
	for _, c := range r.Caps {
		if c == s {
			return
		}
	}
	r.Caps = append(r.Caps, s)
}

func (r *Report) Cap(s string) { r.capOnce(s); r.Incomplete = true }

func (r *Report) Note(s string) {
	for _, c := range r.Notes {
		if c == s {
			return
		}
	}
	if len(r.Notes) < 50 {
		r.Notes = append(r.Notes, s)
	}
}

// Sample keeps up to 6 samples per shard; which ones depends on the seed.
func (r *Report) Sample(v interface{}) {
	n := r.Counters["_samples_seen"]
	r.Counters["_samples_seen"]++
	if len(r.Samples) < 6 {
		r.Samples = append(r.Samples, v)
		return
	}
	// reservoir replacement, deterministic in (seed, n)
	x := Hash64(fmt.Sprintf("%d/%d/%d", r.job.Seed, r.job.Shard, n))
	if x%uint64(n+1) < 6 {
		r.Samples[x%6] = v
	}
}

// Expired reports whether the shard deadline passed (run becomes non-exhaustive).
func (r *Report) Expired() bool {
	if r.deadline.IsZero() {
		return false
	}
	if time.Now().After(r.deadline) {
		r.Cap(fmt.Sprintf("shard deadline of %ds reached; remaining work skipped", r.job.DeadlineS))
		return true
	}
	return false
}

// Violate records a violation (deduplicated by signature).
func (r *Report) Violate(v Violation) {
	r.Count("violations_raw", 1)
	if r.sigSeen[v.Sig] {
		return
	}
	r.sigSeen[v.Sig] = true
	if len(r.Violations) < 200 {
		r.Violations = append(r.Violations, v)
	} else {
		r.capOnce("more than 200 distinct violation signatures in one shard; rest dropped")
	}
}

func (r *Report) Write() {
	r.WallS = time.Since(r.start).Seconds()
	for name, m := range r.sets {
		hs := make([]uint64, 0, len(m))
		for h := range m {
			hs = append(hs, h)
		}
		sort.Slice(hs, func(i, j int) bool { return hs[i] < hs[j] })
		buf := make([]byte, 8*len(hs))
		for i, h := range hs {
			binary.LittleEndian.PutUint64(buf[8*i:], h)
		}
		p := fmt.Sprintf("%s.%s.set", r.job.Out, name)
		if err := os.WriteFile(p, buf, 0644); err != nil {
			panic(err)
		}
		r.HashFiles[name] = p
	}
	delete(r.Counters, "_samples_seen")
	b, err := json.Marshal(r)
	if err != nil {
		panic(err)
	}
	if err := os.WriteFile(r.job.Out, b, 0644); err != nil {
		panic(err)
	}
}

func mustJSON(v interface{}) json.RawMessage {
	b, err := json.Marshal(v)
	if err != nil {
		panic(err)
	}
	return b
}
