//go:build verif

package store

// Exported seams for the verification harness (compiled only with -tags verif
// into the scratch copy; not part of /repo).

import (
	"fmt"
	"sort"
	"strings"

	"github.com/douban/gobeansdb/cmem"
	"github.com/douban/gobeansdb/config"
	"github.com/douban/gobeansdb/loghub"
	"github.com/douban/gobeansdb/vshim/vsched"
)

// ---- logging ---------------------------------------------------------

type VerifHub struct {
	Keep   bool
	Lines  []string
	Fatals []string
}

func (h *VerifHub) Log(name string, level int, file string, line int, msg string) {
	if h.Keep {
		h.Lines = append(h.Lines, fmt.Sprintf("%d %s:%d %s", level, file, line, msg))
		if len(h.Lines) > 400 {
			h.Lines = h.Lines[200:]
		}
	}
	if level == loghub.FATAL {
		h.Fatals = append(h.Fatals, fmt.Sprintf("%s:%d %s", file, line, msg))
		vsched.Fatal(fmt.Sprintf("%s:%d %s", file, line, msg))
	}
}

var VHub = &VerifHub{}

func VerifInstallHub() {
	loghub.ErrorLogger.Hub = verifHubAdapter{VHub}
	if VHub.Keep {
		loghub.ErrorLogger.SetLevel(loghub.INFO)
	} else {
		loghub.ErrorLogger.SetLevel(loghub.FATAL)
	}
}

// ---- configuration -----------------------------------------------------

type VerifCfg struct {
	Name              string
	NumBucket         int
	Served            []int // bucket ids served; nil = all
	TreeHeight        int
	CheckVHash        bool
	DataFileMax       int64
	SplitCap          int64
	BufIOCap          int
	BodyMax           int64
	BodyInC           int64
	MaxReq            int
	IndexIntervalSize int64
	NoMerged          bool
	MergeInterval     int
	NoGCDays          int
	ThresholdListKey  uint32
	Hash              map[string]uint64 // key -> forced key hash (nil = real hash)
	Home              string
}

func VerifApplyCfg(c *VerifCfg) {
	Conf = &HStoreConfig{}
	Conf.InitDefault()
	Conf.Init()
	Conf.NumBucket = c.NumBucket
	Conf.BucketsStat = make([]int, c.NumBucket)
	Conf.BucketsHex = nil
	if c.Served == nil {
		for i := range Conf.BucketsStat {
			Conf.BucketsStat[i] = 1
		}
	} else {
		for _, b := range c.Served {
			Conf.BucketsStat[b] = 1
		}
	}
	Conf.TreeHeight = c.TreeHeight
	Conf.CheckVHash = c.CheckVHash
	if c.DataFileMax > 0 {
		Conf.DataFileMax = c.DataFileMax
	}
	if c.SplitCap > 0 {
		Conf.SplitCap = c.SplitCap
	}
	if c.BufIOCap > 0 {
		Conf.BufIOCap = c.BufIOCap
	}
	if c.IndexIntervalSize > 0 {
		Conf.IndexIntervalSize = c.IndexIntervalSize
	}
	Conf.NoMerged = c.NoMerged
	if c.MergeInterval > 0 {
		Conf.MergeInterval = c.MergeInterval
	}
	Conf.NoGCDays = c.NoGCDays
	Conf.Home = c.Home
	if Conf.Home == "" {
		Conf.Home = "/db"
	}
	Conf.InitTree()
	config.MCConf = config.DefaultMCConfig
	config.MCConf.BodyMax = 50 << 20
	config.MCConf.BodyBig = 1 << 20
	config.MCConf.BodyInC = 4 << 10
	config.MCConf.FlushMax = 100 << 20
	config.MCConf.TimeoutMS = 1 << 30
	if c.BodyMax > 0 {
		config.MCConf.BodyMax = c.BodyMax
	}
	if c.BodyInC > 0 {
		config.MCConf.BodyInC = c.BodyInC
	}
	if c.MaxReq > 0 {
		config.MCConf.MaxReq = c.MaxReq
	}
	SecsBeforeDump = -1
	if c.ThresholdListKey > 0 {
		thresholdListKey = c.ThresholdListKey
	} else {
		thresholdListKey = ThresholdListKeyDefault
	}
	if c.Hash != nil {
		tbl := c.Hash
		getKeyHash = func(key []byte) uint64 {
			if h, ok := tbl[string(key)]; ok {
				return h
			}
			return getKeyHashDefalut(key)
		}
	} else {
		getKeyHash = getKeyHashDefalut
	}
	mergeChan = nil
	cmem.DBRL.ResetAll()
}

func VerifKeyHash(key string) uint64     { return getKeyHash([]byte(key)) }
func VerifRealKeyHash(key string) uint64 { return getKeyHashDefalut([]byte(key)) }

// ---- instance control ------------------------------------------------------

func (store *HStore) VerifFlush(force bool) { store.flushdatas(force) }

// VerifDump runs the body of the hint dumper loop once for every bucket.
func (store *HStore) VerifDump() {
	for _, bkt := range store.buckets {
		if bkt.State == BUCKET_STAT_READY {
			bkt.hints.dumpAndMerge(false)
		}
	}
}

func (store *HStore) VerifMerge() {
	for _, bkt := range store.buckets {
		if bkt.State == BUCKET_STAT_READY {
			bkt.hints.Merge(false)
		}
	}
}

// VerifGCDirect runs one pass synchronously on the calling thread.
func (store *HStore) VerifGCDirect(bucket, begin, end int, merge bool) {
	store.gcMgr.gc(store.buckets[bucket], begin, end, merge)
}

func (store *HStore) VerifGCCheckRange(bucket, begin, end, days int) (int, int, error) {
	return store.buckets[bucket].gcCheckRange(begin, end, days)
}

func (store *HStore) VerifLastGC(bucket int) *GCState {
	h := store.buckets[bucket].GCHistory
	if len(h) == 0 {
		return nil
	}
	return &h[len(h)-1]
}

func (store *HStore) VerifGCRunning(bucket int) bool {
	store.gcMgr.mu.RLock()
	defer store.gcMgr.mu.RUnlock()
	_, ok := store.gcMgr.stat[store.buckets[bucket]]
	return ok
}

func (store *HStore) VerifNewHead(bucket int) int { return store.buckets[bucket].datas.newHead }

func (store *HStore) VerifChunkSize(bucket, chunk int) uint32 {
	return store.buckets[bucket].datas.chunks[chunk].size
}

func (store *HStore) VerifBucketHome(bucket int) string { return store.buckets[bucket].Home }

func (store *HStore) VerifServed(bucket int) bool {
	return store.buckets[bucket].State == BUCKET_STAT_READY
}

// VerifRelease frees C memory held by the instance (tree leaves, buffered
// records) so that millions of instances can be created in one process.
func (store *HStore) VerifRelease() {
	for _, bkt := range store.buckets {
		if bkt.htree != nil {
			bkt.htree.release()
			bkt.htree = nil
		}
		if bkt.datas != nil {
			for i := range bkt.datas.chunks {
				for _, w := range bkt.datas.chunks[i].wbuf {
					w.rec.Payload.CArray.Free()
				}
				bkt.datas.chunks[i].wbuf = nil
			}
		}
	}
}

// VerifStateDump returns a canonical description of the in-memory state of
// the instance that the properties can observe (tree items, buffered
// records, hint buffers, collision table).
func (store *HStore) VerifStateDump() string {
	var sb strings.Builder
	for id, bkt := range store.buckets {
		if bkt.State != BUCKET_STAT_READY || bkt.htree == nil {
			continue
		}
		fmt.Fprintf(&sb, "B%d head=%d tree=%v;", id, bkt.datas.newHead, bkt.TreeID)
		var items []string
		t := bkt.htree
		for li := range t.leafs {
			lf := t.leafs[li].ToBytes()
			lenItem := Conf.TreeKeyHashLen + TREE_ITEM_HEAD_SIZE
			for i := 0; i+lenItem <= len(lf); i += lenItem {
				var it HTreeItem
				bytesToItem(lf[i+Conf.TreeKeyHashLen:], &it)
				items = append(items, fmt.Sprintf("%d:%x:%d:%d:%d:%d", li, lf[i:i+Conf.TreeKeyHashLen], it.Ver, it.Vhash, it.Pos.ChunkID, it.Pos.Offset))
			}
		}
		sort.Strings(items)
		sb.WriteString(strings.Join(items, ","))
		for ci := 0; ci <= bkt.datas.newHead && ci < MAX_NUM_CHUNK; ci++ {
			dc := &bkt.datas.chunks[ci]
			if dc.size > 0 || len(dc.wbuf) > 0 {
				fmt.Fprintf(&sb, ";c%d sz=%d wh=%d buf=%d", ci, dc.size, dc.writingHead, len(dc.wbuf))
			}
			hc := bkt.hints.chunks[ci]
			if len(hc.splits) > 1 || hc.splits[0].buf == nil || hc.splits[0].buf.num > 0 {
				fmt.Fprintf(&sb, ";h%d", ci)
				for _, sp := range hc.splits {
					if sp.buf != nil {
						fmt.Fprintf(&sb, " b%d", sp.buf.num)
					} else {
						sb.WriteString(" f")
					}
				}
			}
		}
		sb.WriteString(";col=")
		sb.Write(bkt.hints.collisions.dumps())
	}
	return sb.String()
}

// VerifLeafRoundTrip enumerates, for all eight depth+height classes, key hashes
// with extreme and per-nibble patterns through SliceHeader.Set/Get/Iter/Remove
// with a synthetic node path, and checks that Iter returns all 64 bits.
func VerifLeafRoundTrip() (cases int, bad []string) {
	saveConf := Conf
	defer func() { Conf = saveConf }()
	hashes := []uint64{0, 1, 1<<32 - 1, 1 << 32, 0x8000000000000000, 0xffffffffffffffff, 0x7fffffffffffffff, 0x0123456789abcdef, 0xfedcba9876543210}
	for n := 0; n < 16; n++ {
		var h uint64
		for i := 0; i < 16; i++ {
			h = h<<4 | uint64((n+i)&0xf)
		}
		hashes = append(hashes, h, uint64(n)<<60, uint64(n)<<28|uint64(n)<<32)
	}
	for _, nb := range []int{1, 16, 256} {
		depth := map[int]int{1: 0, 16: 1, 256: 2}[nb]
		for height := 1; depth+height <= 8; height++ {
			Conf = &HStoreConfig{}
			Conf.InitDefault()
			Conf.NumBucket = nb
			Conf.TreeHeight = height
			Conf.InitTree()
			for _, h := range hashes {
				cases++
				var sh SliceHeader
				var buf [16]int
				path := ParsePathUint64(h, buf[:16])[:depth+height-1]
				ni := &NodeInfo{path: path}
				ki := NewKeyInfoFromBytes([]byte("k"), h, false)
				// a second item first, so that the leaf has two entries
				other := h ^ 0x5 // same path (low bits differ)
				ki2 := NewKeyInfoFromBytes([]byte("k2"), other, false)
				req2 := &HTreeReq{ki: ki2}
				req2.item = HTreeItem{other, Position{1, 512}, 7, 9}
				sh.Set(req2)
				req := &HTreeReq{ki: ki}
				req.item = HTreeItem{h, Position{3, 256}, 5, 0x1234}
				sh.Set(req)
				var g HTreeReq
				g.ki = ki
				if !sh.Get(&g) || g.item.Ver != 5 || g.item.Vhash != 0x1234 || g.item.Pos != (Position{3, 256}) {
					bad = append(bad, fmt.Sprintf("get nb=%d height=%d hash=%016x got %+v", nb, height, h, g.item))
				}
				found := map[uint64]int32{}
				sh.Iter(func(kh uint64, it *HTreeItem) { found[kh] = it.Ver }, ni)
				if found[h] != 5 || found[other] != 7 || len(found) != 2 {
					bad = append(bad, fmt.Sprintf("iter nb=%d height=%d hash=%016x got %x", nb, height, h, found))
				}
				if _, removed := sh.Remove(ki, Position{-1, 0}); !removed {
					bad = append(bad, fmt.Sprintf("remove nb=%d height=%d hash=%016x", nb, height, h))
				}
				found = map[uint64]int32{}
				sh.Iter(func(kh uint64, it *HTreeItem) { found[kh] = it.Ver }, ni)
				if len(found) != 1 || found[other] != 7 {
					bad = append(bad, fmt.Sprintf("iter-after-remove nb=%d height=%d hash=%016x got %x", nb, height, h, found))
				}
				sh.free()
			}
		}
	}
	return
}

// ---- hashes (C16) ----------------------------------------------------------

func VerifFnv(data []byte) uint32    { return fnv1a(data) }
func VerifMurmur(data []byte) uint32 { return murmur(data) }
func VerifCRC(parts ...[]byte) uint32 {
	h := newCrc32()
	for _, p := range parts {
		if len(p) > 0 {
			h.write(p)
		}
	}
	return h.get()
}

// ---- data files (C09) ---------------------------------------------------------

type VerifRec struct {
	Off  uint32
	Key  string
	Body []byte
	Flag uint32
	Ver  int32
	TS   uint32
	Size uint32
}

// VerifWriteDataFile writes the records with the repository's own stream writer.
func VerifWriteDataFile(path string, recs []VerifRec) error {
	w, err := GetStreamWriter(path, false)
	if err != nil {
		return err
	}
	for _, r := range recs {
		p := &Payload{}
		p.Flag, p.Ver, p.TS = r.Flag, r.Ver, r.TS
		p.Body = r.Body
		if _, err := w.Append(&Record{[]byte(r.Key), p}); err != nil {
			return err
		}
	}
	return w.Close()
}

// VerifReadAt is the positional read.
func VerifReadAt(path string, off uint32) (*VerifRec, error) {
	wrec, err := readRecordAtPath(path, off)
	if err != nil {
		return nil, err
	}
	p := wrec.rec.Payload
	out := &VerifRec{Off: off, Key: string(wrec.rec.Key), Body: append([]byte(nil), p.Body...), Flag: p.Flag, Ver: p.Ver, TS: p.TS}
	cmem.DBRL.GetData.SubSizeAndCount(p.CArray.Cap)
	p.CArray.Free()
	return out, nil
}

// VerifScan is the sequential scan (as used by GC and hint rebuild).
func VerifScan(path string) (recs []VerifRec, broken uint32, err error) {
	r, err := newDataStreamReader(path, Conf.BufIOCap)
	if err != nil {
		return nil, 0, err
	}
	defer r.Close()
	for n := 0; n < 100000; n++ {
		rec, off, sb, e := r.Next()
		broken += sb
		if e != nil {
			return recs, broken, e
		}
		if rec == nil {
			return recs, broken, nil
		}
		p := rec.Payload
		recs = append(recs, VerifRec{Off: off, Key: string(rec.Key), Body: append([]byte(nil), p.Body...), Flag: p.Flag, Ver: p.Ver, TS: p.TS, Size: p.RecSize})
		if p.CArray.Addr != 0 {
			cmem.DBRL.GetData.SubSizeAndCount(p.CArray.Cap)
			p.CArray.Free()
		}
	}
	return recs, broken, fmt.Errorf("scan did not terminate")
}

// VerifLimitDumper cuts the periodic dumper's walk over the 998 chunk slots to slots 0..n. Slots above the head
// chunk hold no hints: their iterations only lock and unlock an empty slot. (GC sets the same field during a pass.)
func (store *HStore) VerifLimitDumper(n int) {
	for _, bkt := range store.buckets {
		if bkt.State == BUCKET_STAT_READY && bkt.hints != nil {
			bkt.hints.maxDumpableChunkID = n
		}
	}
}
