//go:build verif

package store

import (
	"fmt"
	"sort"
	"strings"
)

// C14: hint files. Bounded-exhaustive small-scope enumeration, in-package.

type vhItem struct {
	hash uint64
	key  string
	ver  int32
}

var vhUniverse = []vhItem{
	{0, "a", 1}, {0, "b", 2}, // same-hash group at the minimum hash
	{1, "c", 3},
	{1 << 63, "d", -4}, // a tombstone
	{^uint64(0) - 1, "e", 5},
	{^uint64(0), "f", 6}, {^uint64(0), "g", 7}, // same-hash group at the maximum hash
	{1, strings.Repeat("k", 255), 8}, // longest key the format can hold, colliding with "c"
}

type VerifHintResult struct {
	Cases    int64
	Distinct int64
	Bad      []string
	Samples  []string
}

func vhSorted(items []*HintItem) {
	sort.Slice(items, func(i, j int) bool {
		if items[i].Keyhash != items[j].Keyhash {
			return items[i].Keyhash < items[j].Keyhash
		}
		return items[i].Key < items[j].Key
	})
}

// vhWrite writes one hint file with the real writer; items must be sorted.
func vhWrite(path string, items []*HintItem, datasize uint32) error {
	w, err := newHintFileWriter(path, datasize, 1<<12)
	if err != nil {
		return err
	}
	for _, it := range items {
		if err := w.writeItem(it); err != nil {
			return err
		}
	}
	return w.close()
}

func vhReadAll(path string, chunk int) (items []*HintItem, datasize uint32, numKey int, err error) {
	r := newHintFileReader(path, chunk, 4096)
	if err = r.open(); err != nil {
		return
	}
	defer r.close()
	for {
		it, e := r.next()
		if e != nil {
			err = e
			return
		}
		if it == nil {
			break
		}
		items = append(items, it)
	}
	return items, r.datasize, r.numKey, nil
}

func itemEq(a, b *HintItem, withChunk bool) bool {
	if a.Keyhash != b.Keyhash || a.Key != b.Key || a.Ver != b.Ver || a.Vhash != b.Vhash || a.Pos.Offset != b.Pos.Offset {
		return false
	}
	return !withChunk || a.Pos.ChunkID == b.Pos.ChunkID
}

// VerifHintCheck enumerates assignments of at most maxItems (element,file)
// pairs to 1..3 source files, for three index interval sizes.
func VerifHintCheck(maxItems int, shard, nshards int) *VerifHintResult {
	res := &VerifHintResult{}
	fail := func(format string, a ...interface{}) {
		if len(res.Bad) < 50 {
			res.Bad = append(res.Bad, fmt.Sprintf(format, a...))
		}
	}
	nU := len(vhUniverse)
	nF := 3
	slots := nU * nF // slot = element*nF + file
	absent := []vhItem{{0, "0", 0}, {0, "aa", 0}, {1, "b", 0}, {2, "z", 0}, {1 << 62, "m", 0}, {1<<63 + 5, "n", 0}, {^uint64(0), "h", 0}, {^uint64(0), "e", 0}, {^uint64(0) - 1, "zz", 0}}
	unit := 0
	var chosen []int
	var run func(start int)
	one := func(interval int64) {
		Conf.IndexIntervalSize = interval
		files := make([][]*HintItem, nF)
		expect := map[string]*HintItem{} // key -> winning entry (greatest file, offset)
		groups := map[uint64]map[string]bool{}
		for n, sl := range chosen {
			el, f := sl/nF, sl%nF
			u := vhUniverse[el]
			it := newHintItem(u.hash, u.ver+int32(10*f), uint16(100+el), Position{0, uint32(256 * (n + 1))}, u.key)
			files[f] = append(files[f], it)
			w := *it
			w.Pos.ChunkID = f
			if old, ok := expect[u.key]; !ok || w.Pos.CmpKey() > old.Pos.CmpKey() {
				expect[u.key] = &w
			}
			if groups[u.hash] == nil {
				groups[u.hash] = map[string]bool{}
			}
			groups[u.hash][u.key] = true
		}
		var readers []*hintFileReader
		var desc []string
		for f := 0; f < nF; f++ {
			if len(files[f]) == 0 && f > 0 {
				continue // file 0 always exists (possibly empty): the empty-source case
			}
			vhSorted(files[f])
			path := fmt.Sprintf("/h/%03d.000.idx.s", f)
			ds := uint32(256 * (len(chosen) + 2))
			if err := vhWrite(path, files[f], ds); err != nil {
				fail("write %s: %v", path, err)
				return
			}
			var ks []string
			for _, it := range files[f] {
				ks = append(ks, fmt.Sprintf("%x/%s/%d", it.Keyhash, it.Key[:min(len(it.Key), 3)], it.Ver))
			}
			desc = append(desc, fmt.Sprintf("f%d[%s]", f, strings.Join(ks, " ")))
			// (a) round trip
			got, gds, gn, err := vhReadAll(path, f)
			if err != nil {
				fail("read back %s: %v (%s)", path, err, desc)
				continue
			}
			if gds != ds || gn != len(files[f]) || len(got) != len(files[f]) {
				fail("round trip meta %s: datasize %d/%d numKey %d/%d items %d (%s)", path, gds, ds, gn, len(files[f]), len(got), desc)
			}
			for i := range got {
				if i < len(files[f]) && !itemEq(got[i], files[f][i], false) {
					fail("round trip item %d of %s: %+v != %+v", i, path, got[i], files[f][i])
				}
			}
			// (b) total lookup
			idx, err := loadHintIndex(path)
			if err != nil {
				fail("loadHintIndex %s: %v (%s)", path, err, desc)
				continue
			}
			for _, it := range files[f] {
				g, err := idx.get(it.Keyhash, it.Key)
				if err != nil || g == nil || !itemEq(g, it, false) {
					fail("lookup present %x/%s in %s: got %+v err %v (interval %d; %s)", it.Keyhash, it.Key[:min(len(it.Key), 8)], path, g, err, interval, desc)
				}
			}
			present := map[string]bool{}
			for _, it := range files[f] {
				present[fmt.Sprintf("%x/%s", it.Keyhash, it.Key)] = true
			}
			for _, a := range absent {
				if present[fmt.Sprintf("%x/%s", a.hash, a.key)] {
					continue
				}
				g, err := idx.get(a.hash, a.key)
				if err != nil || g != nil {
					fail("lookup absent %x/%s in %s: got %+v err %v (interval %d; %s)", a.hash, a.key, path, g, err, interval, desc)
				}
			}
			readers = append(readers, newHintFileReader(path, f, 4096))
		}
		// (c) merge
		ct := newCollisionTable()
		state := 0
		dst := "/h/merged.idx.m"
		var mergeErr error
		func() {
			defer func() {
				if e := recover(); e != nil {
					mergeErr = fmt.Errorf("panic: %v", e)
				}
			}()
			_, mergeErr = merge(readers, dst, ct, &state, false)
		}()
		if mergeErr != nil {
			fail("merge: %v (%s)", mergeErr, strings.Join(desc, " "))
		} else {
			got, _, _, err := vhReadAll(dst, 0)
			if err != nil {
				fail("read merged: %v (%s)", err, desc)
			}
			if len(got) != len(expect) {
				fail("merged has %d items, want %d (%s)", len(got), len(expect), strings.Join(desc, " "))
			}
			for i, it := range got {
				w := expect[it.Key]
				if w == nil || !itemEq(it, w, true) {
					fail("merged item %+v, want %+v (%s)", it, w, strings.Join(desc, " "))
				}
				if i > 0 && (got[i-1].Keyhash > it.Keyhash || (got[i-1].Keyhash == it.Keyhash && got[i-1].Key >= it.Key)) {
					fail("merged file not sorted at %d (%s)", i, strings.Join(desc, " "))
				}
			}
			for h, ks := range groups {
				for k := range ks {
					_, ok := ct.get(h, k)
					if len(ks) > 1 && !ok {
						fail("collision group of %x: key %s not reported to the collision table (%s)", h, k[:min(len(k), 8)], strings.Join(desc, " "))
					}
					if len(ks) == 1 && ok {
						fail("key %s reported as collision but is alone on hash %x (%s)", k[:min(len(k), 8)], h, strings.Join(desc, " "))
					}
				}
			}
		}
		res.Cases++
		if len(res.Samples) < 4 && len(chosen) >= 3 {
			res.Samples = append(res.Samples, fmt.Sprintf("interval %d: %s", interval, strings.Join(desc, " ")))
		}
	}
	run = func(start int) {
		mine := unit%nshards == shard
		unit++
		if mine {
			res.Distinct++
			for _, iv := range []int64{0, 400, 4096} {
				one(iv)
			}
		}
		if len(chosen) == maxItems {
			return
		}
		for s := start; s < slots; s++ {
			chosen = append(chosen, s)
			run(s + 1)
			chosen = chosen[:len(chosen)-1]
		}
	}
	run(0)
	return res
}

// VerifHintLarge: deterministic families around the 4096-entry row boundary of the in-memory index buffer.
func VerifHintLarge(ns []int) *VerifHintResult {
	res := &VerifHintResult{}
	fail := func(format string, a ...interface{}) {
		if len(res.Bad) < 50 {
			res.Bad = append(res.Bad, fmt.Sprintf(format, a...))
		}
	}
	for _, n := range ns {
		Conf.IndexIntervalSize = 0 // an index entry per item
		items := make([]*HintItem, n)
		for i := 0; i < n; i++ {
			items[i] = newHintItem(uint64(i)*0x0004000000000001+7, int32(i%5+1), uint16(i), Position{0, uint32(256 * i)}, fmt.Sprintf("key-%05d", i))
		}
		path := fmt.Sprintf("/h/large-%d.idx.s", n)
		if err := vhWrite(path, items, uint32(256*n)); err != nil {
			fail("n=%d write: %v", n, err)
			continue
		}
		got, ds, nk, err := vhReadAll(path, 0)
		if err != nil || len(got) != n || nk != n || ds != uint32(256*n) {
			fail("n=%d round trip: err %v items %d numKey %d datasize %d", n, err, len(got), nk, ds)
		}
		idx, err := loadHintIndex(path)
		if err != nil {
			fail("n=%d load index: %v", n, err)
			continue
		}
		if n > 0 && len(idx.index) != n {
			fail("n=%d index has %d entries", n, len(idx.index))
		}
		step := 1
		if n > 600 {
			step = 97
		}
		probe := func(i int) {
			g, err := idx.get(items[i].Keyhash, items[i].Key)
			if err != nil || g == nil || !itemEq(g, items[i], false) {
				fail("n=%d lookup item %d: got %+v err %v", n, i, g, err)
			}
			g, err = idx.get(items[i].Keyhash, "absent")
			if err != nil || g != nil {
				fail("n=%d lookup same-hash absent key at %d: got %+v err %v", n, i, g, err)
			}
			g, err = idx.get(items[i].Keyhash+1, items[i].Key)
			if err != nil || g != nil {
				fail("n=%d lookup absent hash after %d: got %+v err %v", n, i, g, err)
			}
			res.Cases++
		}
		for i := 0; i < n; i += step {
			probe(i)
		}
		for _, i := range []int{4094, 4095, 4096, 4097, n - 1} {
			if i >= 0 && i < n {
				probe(i)
			}
		}
		// HintBuffer.Dump sorted
		Conf.SplitCap = int64(n + 1)
		hb := NewHintBuffer()
		for i := n - 1; i >= 0; i-- {
			hb.Set(items[i], 256)
		}
		if n > 0 {
			p2 := fmt.Sprintf("/h/dump-%d.idx.s", n)
			if _, err := hb.Dump(p2); err != nil {
				fail("n=%d HintBuffer.Dump: %v", n, err)
			}
			got2, _, _, err := vhReadAll(p2, 0)
			if err != nil || len(got2) != n {
				fail("n=%d dump read back: %v items %d", n, err, len(got2))
			}
			for i := range got2 {
				if i < n && !itemEq(got2[i], items[i], false) {
					fail("n=%d dump not sorted/identical at %d", n, i)
					break
				}
			}
		}
		res.Distinct++
	}
	return res
}

func min(a, b int) int {
	if a < b {
		return a
	}
	return b
}
