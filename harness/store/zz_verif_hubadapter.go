//go:build verif

package store

import "io"

type verifHubAdapter struct{ h *VerifHub }

func (a verifHubAdapter) Log(name string, level int, file string, line int, msg string) {
	a.h.Log(name, level, file, line, msg)
}
func (a verifHubAdapter) Reopen(path string) error           { return nil }
func (a verifHubAdapter) GetLastLog() []byte                 { return nil }
func (a verifHubAdapter) DumpBuffer(all bool, out io.Writer) {}
