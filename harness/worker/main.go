//go:build verif

package main

import "github.com/douban/gobeansdb/vharness"

func main() { vharness.Main() }
